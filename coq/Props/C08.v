(* C08 - temporal aggregation and disaggregation reduce by group and conserve
   totals.  Statements only; every proof is `exact <lemma>` from
   Proofs/DutilsProofs.v / Proofs/DutilsCalProofs.v.

   Vocabulary (all defined in Proofs/DutilsProofs.v):
     [RN]            real numbers with an explicit missing value, [None] = NaN
     [runs l]        the maximal runs of equal index of [l : list (index * value)]
     [nondecr ks]    the index never decreases; [decreases_somewhere ks] its negation
     [present g]     the non-missing values of a group, in order; [nmiss g] the
                     number of missing ones
     [reduce op maxnan g]  None when nmiss g > maxnan, otherwise the sum (op 0),
                     mean (1), maximum (2), last (3) of [present g]
     [flat_group maxnan g] the group with every present value replaced by the
                     mean of the present values (all missing when nmiss g > maxnan)
   [py_aggregate] / [py_flathomogen] / [py_monthly2daily] are the models of the
   Python entry points, kernels included (Model/Dutils.v); [agg_upd] is the
   repaired reduction step, [agg_upd_pinned] the one of the pinned commit. *)
From Coq Require Import ZArith Bool List Reals.
From Hy Require Import Base.Num Gen.ConstsC08 Model.Dutils
     Proofs.DutilsProofs Proofs.DutilsCalProofs Proofs.DutilsGenProofs.
Import ListNotations.

(* ------------------------------------------------------------------ *)
(* groups: with a non-decreasing index there is one group per distinct
   index value, in increasing order, holding the elements with that index *)

Theorem C08_groups_partition_the_input : forall (l : list (Z * option R)),
  concat (map snd (runs l)) = map snd l.
Proof. exact (@runs_concat (option R)). Qed.
Print Assumptions C08_groups_partition_the_input.

Theorem C08_group_keys_strictly_increase : forall (l : list (Z * option R)),
  nondecr (map fst l) -> strictly_incr (map fst (runs l)).
Proof. exact (@runs_keys_incr (option R)). Qed.
Print Assumptions C08_group_keys_strictly_increase.

Theorem C08_group_keys_are_the_index_values : forall (l : list (Z * option R)) k,
  In k (map fst (runs l)) <-> In k (map fst l).
Proof. exact (@runs_keys_in (option R)). Qed.
Print Assumptions C08_group_keys_are_the_index_values.

Theorem C08_group_holds_the_elements_with_its_key : forall (l : list (Z * option R)) k g,
  nondecr (map fst l) -> In (k, g) (runs l) -> g = with_key k l.
Proof. exact (@runs_group (option R)). Qed.
Print Assumptions C08_group_holds_the_elements_with_its_key.

Theorem C08_groups_are_nonempty : forall (l : list (Z * option R)),
  Forall (fun kg => snd kg <> []) (runs l).
Proof. exact (@runs_nonempty (option R)). Qed.
Print Assumptions C08_groups_are_nonempty.

Theorem C08_nondecr_or_decreases : forall ks, ~ nondecr ks <-> decreases_somewhere ks.
Proof. exact not_nondecr_decreases. Qed.
Print Assumptions C08_nondecr_or_decreases.

(* the int32 conversion of the wrapper is the identity on int32 values *)
Theorem C08_int32_conversion_is_identity : forall z, in_int32 z -> to_int32 z = z.
Proof. exact to_int32_id. Qed.
Print Assumptions C08_int32_conversion_is_identity.

(* ------------------------------------------------------------------ *)
(* aggregate *)

(* every operator, every maxnan, every length >= 1, every NaN placement:
   one output per group, in order, = reduce of the group; no error *)
Theorem C08_aggregate_spec : forall op maxnan idx xs,
  length idx = length xs -> (1 <= length xs)%nat ->
  Forall in_int32 idx -> nondecr idx ->
  py_aggregate RN (agg_upd RN) op maxnan idx xs =
  DOk (map (fun kg => reduce op maxnan (snd kg)) (runs (combine idx xs))).
Proof. exact aggregate_spec. Qed.
Print Assumptions C08_aggregate_spec.

Example C08_aggregate_spec_nonvacuous :
  length ex_idx = length ex_xs /\ (1 <= length ex_xs)%nat /\
  Forall in_int32 ex_idx /\ nondecr ex_idx.
Proof. exact ex_hyps. Qed.
Print Assumptions C08_aggregate_spec_nonvacuous.

(* a worked instance: maximum with maxnan = 1 over [-1; NaN] [-2] [4; -3] *)
Example C08_aggregate_max_example :
  py_aggregate RN (agg_upd RN) 2 1 ex_idx ex_xs = DOk [Some (-1); Some (-2); Some 4]%R.
Proof. exact ex_max. Qed.
Print Assumptions C08_aggregate_max_example.

(* what the value of a group is, operator by operator *)
Theorem C08_reduce_meaning : forall op maxnan g,
  ((maxnan < nmiss g)%Z -> reduce op maxnan g = None) /\
  ((nmiss g <= maxnan)%Z ->
     (op = 0%Z -> reduce op maxnan g = Some (lsum (present g))) /\
     (op = 1%Z -> present g <> [] ->
        reduce op maxnan g = Some (lsum (present g) / INR (length (present g)))%R) /\
     (op = 2%Z -> present g <> [] ->
        exists m, reduce op maxnan g = Some m /\ In m (present g) /\
                  Forall (fun y => (y <= m)%R) (present g)) /\
     (op = 3%Z -> present g <> [] ->
        exists p v, present g = p ++ [v] /\ reduce op maxnan g = Some v)).
Proof. exact reduce_meaning. Qed.
Print Assumptions C08_reduce_meaning.

(* totals: the aggregated sums add up to the sum of the non-missing inputs *)
Theorem C08_aggregate_sum_conserved : forall maxnan idx xs,
  length idx = length xs -> (1 <= length xs)%nat ->
  Forall in_int32 idx -> nondecr idx ->
  Forall (fun kg => (nmiss (snd kg) <= maxnan)%Z) (runs (combine idx xs)) ->
  exists outs, py_aggregate RN (agg_upd RN) 0 maxnan idx xs = DOk (somes outs) /\
               lsum outs = lsum (present xs).
Proof. exact aggregate_sum_conserved. Qed.
Print Assumptions C08_aggregate_sum_conserved.

Example C08_sum_conserved_nonvacuous :
  Forall (fun kg => (nmiss (snd kg) <= 1)%Z) (runs (combine ex_idx ex_xs)).
Proof. exact ex_within_maxnan. Qed.
Print Assumptions C08_sum_conserved_nonvacuous.

(* an index that decreases anywhere is rejected - any arithmetic instance
   (binary64 included), any reduction step *)
Theorem C08_aggregate_rejects_decreasing_index :
  forall {T} (N : NumOps T) upd op maxnan idx (xs : list T),
  length idx = length xs -> Forall in_int32 idx -> decreases_somewhere idx ->
  py_aggregate N upd op maxnan idx xs = DErrOrder.
Proof. exact @aggregate_rejects_decreasing. Qed.
Print Assumptions C08_aggregate_rejects_decreasing_index.

Example C08_decreasing_nonvacuous : decreases_somewhere [199502; 199501; 199503]%Z.
Proof. exact ex_decreasing. Qed.
Print Assumptions C08_decreasing_nonvacuous.

Theorem C08_aggregate_rejects_different_lengths :
  forall {T} (N : NumOps T) upd op maxnan idx (xs : list T),
  length idx <> length xs -> py_aggregate N upd op maxnan idx xs = DErrLen.
Proof. exact @aggregate_rejects_length. Qed.
Print Assumptions C08_aggregate_rejects_different_lengths.

(* the kernel never stores more values than the output buffer holds *)
Theorem C08_aggregate_output_fits_buffer : forall op maxnan (idx : list Z) (xs : list (option R)),
  length idx = length xs ->
  (length (map (fun kg => reduce op maxnan (snd kg)) (runs (combine idx xs))) <= length xs)%nat.
Proof. exact aggregate_fits_buffer. Qed.
Print Assumptions C08_aggregate_output_fits_buffer.

(* the pinned kernel does NOT meet C08_aggregate_spec: maximum of [-1; -2]
   (it gives 0), last value of [3; NaN] with maxnan = 1 (it gives 0).  Both
   witnesses reproduce on the real code (notes/C08.md); repaired by two
   `fix:` commits, after which [agg_upd] is the model of the code. *)
Theorem C08_pinned_max_refuted :
  exists op maxnan idx xs,
    length idx = length xs /\ (1 <= length xs)%nat /\ Forall in_int32 idx /\ nondecr idx /\
    py_aggregate RN (agg_upd_pinned RN) op maxnan idx xs <>
    DOk (map (fun kg => reduce op maxnan (snd kg)) (runs (combine idx xs))).
Proof. exact pinned_max_refuted. Qed.
Print Assumptions C08_pinned_max_refuted.

Theorem C08_pinned_tail_refuted :
  exists op maxnan idx xs,
    length idx = length xs /\ (1 <= length xs)%nat /\ Forall in_int32 idx /\ nondecr idx /\
    py_aggregate RN (agg_upd_pinned RN) op maxnan idx xs <>
    DOk (map (fun kg => reduce op maxnan (snd kg)) (runs (combine idx xs))).
Proof. exact pinned_tail_refuted. Qed.
Print Assumptions C08_pinned_tail_refuted.

(* ------------------------------------------------------------------ *)
(* flathomogen *)

Theorem C08_flathomogen_spec : forall maxnan idx xs,
  length idx = length xs -> (1 <= length xs)%nat ->
  Forall in_int32 idx -> nondecr idx ->
  py_flathomogen RN maxnan idx xs =
  DOk (concat (map (fun kg => flat_group maxnan (snd kg)) (runs (combine idx xs)))).
Proof. exact flathomogen_spec. Qed.
Print Assumptions C08_flathomogen_spec.

(* inside a group: a missing entry stays missing, a present one becomes the
   mean of the present values of the group (when the group is within maxnan) *)
Theorem C08_flat_group_pointwise : forall maxnan g,
  Forall2 (fun x o =>
             match x with
             | None => o = None
             | Some _ => (nmiss g <= maxnan)%Z ->
                         o = Some (lsum (present g) / INR (length (present g)))%R
             end) g (flat_group maxnan g).
Proof. exact flat_group_pointwise. Qed.
Print Assumptions C08_flat_group_pointwise.

Theorem C08_flathomogen_keeps_length_and_missing : forall maxnan idx xs,
  length idx = length xs -> (1 <= length xs)%nat ->
  Forall in_int32 idx -> nondecr idx ->
  exists out, py_flathomogen RN maxnan idx xs = DOk out /\
              length out = length xs /\
              Forall2 (fun x o => x = None -> o = None) xs out.
Proof. exact flathomogen_missing_kept. Qed.
Print Assumptions C08_flathomogen_keeps_length_and_missing.

(* each group's total is preserved *)
Theorem C08_flathomogen_preserves_group_total : forall maxnan g,
  (nmiss g <= maxnan)%Z -> lsum (present (flat_group maxnan g)) = lsum (present g).
Proof. exact flat_group_total. Qed.
Print Assumptions C08_flathomogen_preserves_group_total.

Example C08_group_total_nonvacuous : (nmiss [Some 1; None; Some 5]%R <= 1)%Z.
Proof. cbv; discriminate. Qed.
Print Assumptions C08_group_total_nonvacuous.

Theorem C08_flathomogen_total_conserved : forall maxnan idx xs,
  length idx = length xs -> (1 <= length xs)%nat ->
  Forall in_int32 idx -> nondecr idx ->
  Forall (fun kg => (nmiss (snd kg) <= maxnan)%Z) (runs (combine idx xs)) ->
  exists out, py_flathomogen RN maxnan idx xs = DOk out /\
              lsum (present out) = lsum (present xs).
Proof. exact flathomogen_total_conserved. Qed.
Print Assumptions C08_flathomogen_total_conserved.

Theorem C08_flathomogen_rejects_decreasing_index :
  forall {T} (N : NumOps T) maxnan idx (xs : list T),
  length idx = length xs -> Forall in_int32 idx -> decreases_somewhere idx ->
  py_flathomogen N maxnan idx xs = DErrOrder.
Proof. exact @flathomogen_rejects_decreasing. Qed.
Print Assumptions C08_flathomogen_rejects_decreasing_index.

Theorem C08_flathomogen_rejects_different_lengths :
  forall {T} (N : NumOps T) maxnan idx (xs : list T),
  length idx <> length xs -> py_flathomogen N maxnan idx xs = DErrLen.
Proof. exact @flathomogen_rejects_length. Qed.
Print Assumptions C08_flathomogen_rejects_different_lengths.

(* ------------------------------------------------------------------ *)
(* calendar (c_dateutils.c; table and moduli re-extracted from the source) *)

Theorem C08_leap_year_rule : forall y,
  is_leap y = true <-> ((4 | y) /\ (~ (100 | y) \/ (400 | y)))%Z.
Proof. exact is_leap_spec. Qed.
Print Assumptions C08_leap_year_rule.

Example C08_leap_year_examples :
  is_leap 2000 = true /\ is_leap 1900 = false /\ is_leap 2024 = true /\ is_leap 2023 = false.
Proof. exact ex_leap. Qed.
Print Assumptions C08_leap_year_examples.

Theorem C08_days_in_month : forall y m, (1 <= m <= 12)%Z ->
  days_in_month y m = month_len (is_leap y) m /\ (28 <= days_in_month y m <= 31)%Z.
Proof. intros y m H. split; [exact (days_in_month_valid y m H)|exact (days_in_month_bounds y m H)]. Qed.
Print Assumptions C08_days_in_month.

Theorem C08_days_in_february : forall y, days_in_month y 2 = if is_leap y then 29%Z else 28%Z.
Proof. exact days_in_february. Qed.
Print Assumptions C08_days_in_february.

Theorem C08_days_in_invalid_month : forall y m, (m < 1 \/ 12 < m)%Z -> days_in_month y m = (-1)%Z.
Proof. exact days_in_month_invalid. Qed.
Print Assumptions C08_days_in_invalid_month.

Theorem C08_days_in_year : forall y, year_days y = if is_leap y then 366%Z else 365%Z.
Proof. exact year_days_spec. Qed.
Print Assumptions C08_days_in_year.

(* every month fits the 32-point evaluation grid of the cubic interpolation *)
Theorem C08_month_fits_cubic_grid : forall y m, (1 <= m <= 12)%Z ->
  (1 <= days_in_month y m <= M2D_NGRID - 1)%Z.
Proof. exact days_in_month_fits_grid. Qed.
Print Assumptions C08_month_fits_cubic_grid.

Theorem C08_add1month_on_month_start : forall ym, valid_month ym ->
  c_add1month (fst ym, snd ym, 1%Z) = Some (fst (next_month ym), snd (next_month ym), 1%Z).
Proof. exact add1month_first. Qed.
Print Assumptions C08_add1month_on_month_start.

(* one block per month = one entry per calendar day: stepping day by day with
   the kernel's add-one-day from the first day enumerates exactly the days of
   the successive months *)
Theorem C08_month_blocks_are_consecutive_days : forall ym n, valid_month ym ->
  days_from (fst ym, snd ym, 1%Z) (length (flat_map month_days (months_from ym n))) =
  flat_map month_days (months_from ym n).
Proof. exact month_blocks_are_consecutive_days. Qed.
Print Assumptions C08_month_blocks_are_consecutive_days.

(* ------------------------------------------------------------------ *)
(* monthly2daily: the output is the concatenation of one block per month with
   as many values as the month has days (leap years included), adding up to
   the monthly value *)

Theorem C08_monthly2daily_flat : forall start vals,
  valid_month start -> Forall (fun v => (0 <= v)%R) vals ->
  exists blocks,
    m2d_flat RR 0%R start vals = concat blocks /\
    month_blocks_ok start vals blocks /\
    Forall2 (fun p b => Forall (fun d => d = (snd p / IZR (dim_of (fst p)))%R) b)
            (combine (months_from start (length vals)) vals) blocks.
Proof. exact m2d_flat_spec. Qed.
Print Assumptions C08_monthly2daily_flat.

Example C08_monthly2daily_nonvacuous :
  valid_month (2000%Z, 2%Z) /\ Forall (fun v => (0 <= v)%R) [58; 0; 15]%R.
Proof. exact ex_m2d_hyps. Qed.
Print Assumptions C08_monthly2daily_nonvacuous.

Example C08_monthly2daily_flat_example :
  exists rest, m2d_flat RR 0%R (2000%Z, 2%Z) [58; 0; 15]%R = repeat (58 / 29)%R 29 ++ rest.
Proof. exact ex_m2d_flat_first_block. Qed.
Print Assumptions C08_monthly2daily_flat_example.

(* cubic: whatever the monthly values (no sign condition) and whatever the
   derivative constraints computed by the adjustment loop *)
Theorem C08_monthly2daily_cubic : forall minthr start vals,
  valid_month start ->
  exists blocks,
    m2d_cubic RR minthr start vals = concat blocks /\
    month_blocks_ok start vals blocks.
Proof. exact m2d_cubic_spec. Qed.
Print Assumptions C08_monthly2daily_cubic.

(* telescoping for one month, any d0*n, d1*n *)
Theorem C08_cubic_month_sums_to_monthly_value : forall r : mrec (T:=R),
  (1 <= m_nd r <= M2D_NGRID - 1)%Z ->
  lsum (m2d_cubic_month RR r) = m_y r /\
  Z.of_nat (length (m2d_cubic_month RR r)) = m_nd r.
Proof. exact cubic_month_sum. Qed.
Print Assumptions C08_cubic_month_sums_to_monthly_value.

Example C08_cubic_month_nonvacuous : (1 <= m_nd (mkM 29%Z 58 1 3)%R <= M2D_NGRID - 1)%Z.
Proof. exact ex_cubic_rec. Qed.
Print Assumptions C08_cubic_month_nonvacuous.

Theorem C08_monthly2daily_rejects_unknown_interpolation :
  forall {T} (N : NumOps T) interp minthr start vals,
  interp <> 0%Z -> interp <> 1%Z ->
  py_monthly2daily N interp minthr start vals = DErrArg.
Proof. exact @m2d_rejects_unknown_interpolation. Qed.
Print Assumptions C08_monthly2daily_rejects_unknown_interpolation.

(* ------------------------------------------------------------------ *)
(* facts that do not depend on rounding: they hold for EVERY arithmetic
   instance, binary64 ([F64]) included.  [validN N g] / [nmissN N g]: the
   non-missing inputs of a group / the number of missing ones, as decided by
   the instance's own isnan *)

(* the kernel works group by group: one output per group, each a fold over
   its own group only *)
Theorem C08_aggregate_groupwise_any_instance :
  forall {T} (N : NumOps T) upd op maxnan idx (xs : list T),
  length idx = length xs -> (1 <= length xs)%nat ->
  Forall in_int32 idx -> nondecr idx ->
  py_aggregate N upd op maxnan idx xs =
  DOk (map (fun kg => group_value N upd op maxnan (snd kg)) (runs (combine idx xs))).
Proof. exact @aggregate_groupwise. Qed.
Print Assumptions C08_aggregate_groupwise_any_instance.

Theorem C08_aggregate_one_output_per_group_any_instance :
  forall {T} (N : NumOps T) upd op maxnan idx (xs : list T),
  length idx = length xs -> (1 <= length xs)%nat ->
  Forall in_int32 idx -> nondecr idx ->
  exists out, py_aggregate N upd op maxnan idx xs = DOk out /\
              length out = length (runs (combine idx xs)).
Proof. exact @aggregate_output_count. Qed.
Print Assumptions C08_aggregate_one_output_per_group_any_instance.

Theorem C08_group_beyond_maxnan_is_nan_any_instance :
  forall {T} (N : NumOps T) upd op maxnan (g : list T),
  (maxnan < nmissN N g)%Z -> group_value N upd op maxnan g = nnan N.
Proof. exact @group_value_beyond_maxnan. Qed.
Print Assumptions C08_group_beyond_maxnan_is_nan_any_instance.

Example C08_beyond_maxnan_nonvacuous : (0 < nmissN RN [Some 1%R; None])%Z.
Proof. reflexivity. Qed.
Print Assumptions C08_beyond_maxnan_nonvacuous.

(* tail = the last non-missing input itself; max = one of the non-missing inputs *)
Theorem C08_tail_is_last_valid_input_any_instance :
  forall {T} (N : NumOps T) maxnan (g : list T),
  (nmissN N g <= maxnan)%Z ->
  group_value N (agg_upd N) 3 maxnan g = last (validN N g) (n0 N).
Proof. exact @tail_value_any_instance. Qed.
Print Assumptions C08_tail_is_last_valid_input_any_instance.

Theorem C08_max_is_a_valid_input_any_instance :
  forall {T} (N : NumOps T) maxnan (g : list T),
  (nmissN N g <= maxnan)%Z -> validN N g <> [] ->
  In (group_value N (agg_upd N) 2 maxnan g) (validN N g).
Proof. exact @max_value_any_instance. Qed.
Print Assumptions C08_max_is_a_valid_input_any_instance.

Example C08_any_instance_nonvacuous :
  (nmissN RN [Some 1%R; None] <= 1)%Z /\ validN RN [Some 1%R; None] <> [].
Proof. split; [cbv; discriminate|discriminate]. Qed.
Print Assumptions C08_any_instance_nonvacuous.

Theorem C08_flathomogen_any_instance :
  forall {T} (N : NumOps T) maxnan idx (xs : list T),
  length idx = length xs -> (1 <= length xs)%nat ->
  Forall in_int32 idx -> nondecr idx ->
  exists out, py_flathomogen N maxnan idx xs = DOk out /\
              length out = length xs /\
              Forall2 (fun x o => nisnan N x = true -> o = nnan N) xs out.
Proof. exact @flathomogen_any_instance. Qed.
Print Assumptions C08_flathomogen_any_instance.

(* ------------------------------------------------------------------ *)
(* more about the cubic interpolation (beyond the property's statement) *)

Theorem C08_polyval_is_horner : forall x c, polyval RR x c = horner c x.
Proof. exact polyval_horner. Qed.
Print Assumptions C08_polyval_is_horner.

(* f(0) = 0, f(1) = y, f'(0) = d0*n, f'(1) = d1*n, on the coefficients *)
Theorem C08_cubic_coefficients : forall r : mrec (T:=R),
  exists c1 c2 c3, m2d_coefs RR r = [0; c1; c2; c3]%R /\
    (c1 + c2 + c3 = m_y r /\ c1 = m_a r /\ c1 + 2 * c2 + 3 * c3 = m_b r)%R.
Proof. exact cubic_coefs. Qed.
Print Assumptions C08_cubic_coefficients.

(* the adjustment loop makes the daily slope continuous across month ends *)
Theorem C08_cubic_slopes_continuous : forall rest cur,
  Forall (fun r : mrec (T:=R) => m_nd r <> 0%Z) (cur :: rest) ->
  slopes_match (m2d_smooth RR cur rest).
Proof. exact smooth_slopes_match. Qed.
Print Assumptions C08_cubic_slopes_continuous.

Example C08_cubic_slopes_nonvacuous :
  Forall (fun r : mrec (T:=R) => m_nd r <> 0%Z) [mkM 31%Z 10 1 2; mkM 29%Z 5 3 4]%R.
Proof. repeat constructor; discriminate. Qed.
Print Assumptions C08_cubic_slopes_nonvacuous.

(* ================================================================== *)
(* The same property on the REGENERATED program: [program] is the MiniC  *)
(* translation of the C kernel produced from the tree under test on      *)
(* every run (Gen/KernelsAst.v); [exec_fun] its interpreter (MiniC.v).   *)
(* ================================================================== *)
From Coq Require Import String Lia.
From Hy Require Import Base.MiniC Gen.KernelsAst Proofs.RefineDutils.
Open Scope string_scope.
Open Scope list_scope.
Open Scope Z_scope.

(* c_aggregate = the kernel model [c_aggregate] (the one [py_aggregate] calls), any
   arithmetic instance whose (double)0 is its zero (binary64, reals, reals with NaN), any
   operator code, any maxnan, any index (decreasing included: positive code), any values,
   the empty input included (the repaired kernel returns 0 groups where the model says
   KUndef), any initial buffer content *)
Theorem C08_kernel_aggregate_refines_model :
  forall {T} (N : NumOps T) (X : NumLit T), nofZ N 0 = n0 N ->
  forall op maxnan idx (xs outbuf : list T) ie n,
  List.length xs = List.length idx -> List.length outbuf = List.length idx ->
  (List.length idx < n)%nat ->
  let run := exec_fun N X program (S n) "c_aggregate"
     [AVI (MiniC.zlen idx); AVI op; AVI maxnan; AVArrI idx; AVArrF xs; AVArrF outbuf; AVArrI [ie]] in
  match c_aggregate N (agg_upd N) (MiniC.zlen idx) op maxnan idx xs outbuf with
  | KUndef => run = Ok (RI 0, [VArrI idx; VArrF xs; VArrF outbuf; VArrI [0]])
  | KDone (out, iend) => run = Ok (RI 0, [VArrI idx; VArrF xs; VArrF out; VArrI [iend]])
  | _ => exists code out', 0 < code /\ List.length out' = List.length outbuf /\
         run = Ok (RI code, [VArrI idx; VArrF xs; VArrF out'; VArrI [ie]])
  end.
Proof. exact @refine_aggregate. Qed.
Print Assumptions C08_kernel_aggregate_refines_model.

Theorem C08_kernel_flathomogen_refines_model :
  forall {T} (N : NumOps T) (X : NumLit T), nofZ N 0 = n0 N ->
  forall maxnan idx (xs outbuf : list T) n,
  List.length xs = List.length idx -> List.length outbuf = List.length idx ->
  (List.length idx < n)%nat ->
  let run := exec_fun N X program (S n) "c_flathomogen"
     [AVI (MiniC.zlen idx); AVI maxnan; AVArrI idx; AVArrF xs; AVArrF outbuf] in
  match c_flathomogen N maxnan idx xs with
  | KUndef => run = Ok (RI 0, [VArrI idx; VArrF xs; VArrF outbuf])
  | KDone out => run = Ok (RI 0, [VArrI idx; VArrF xs; VArrF out])
  | _ => exists code out', 0 < code /\ List.length out' = List.length outbuf /\
         run = Ok (RI code, [VArrI idx; VArrF xs; VArrF out'])
  end.
Proof. exact @refine_flathomogen. Qed.
Print Assumptions C08_kernel_flathomogen_refines_model.

Example C08_kernel_hyp_instances : nofZ F64 0 = n0 F64 /\ nofZ RR 0 = n0 RR /\ nofZ RN 0 = n0 RN.
Proof. exact (conj HZ_F64 (conj HZ_RR HZ_RN)). Qed.

(* ================================================================== *)
(* C08 ITSELF on the regenerated program: the property theorems above *)
(* transported to exec_fun .. program "c_aggregate" / "c_flathomogen" *)
(* (Proofs/KernelDutils.v; kernel run directly: any buffer content, no *)
(* int32 hypothesis).                                                 *)
(* ================================================================== *)
From Coq Require Import String Lia PrimFloat.
From Hy Require Import Base.Num Base.MiniC Gen.KernelsAst Gen.Consts Gen.ConstsC08 Model.Dutils.
From Hy Require Proofs.KernelDutils.
Import ListNotations.
Open Scope string_scope.
Open Scope list_scope.
Open Scope Z_scope.

(* run_aggregate / run_flathomogen = the executions of the translated kernels *)
Theorem C08_kernel_run_dutils :
  forall (T : Type) (N : NumOps T) (X : NumLit T) (n : nat) (op maxnan : Z) 
         (idx : list Z) (xs outbuf : list T) (ie : Z),
       KernelDutils.run_aggregate N X n op maxnan idx xs outbuf ie =
       exec_fun N X program (S n) "c_aggregate"
         [AVI (zlen idx); AVI op; AVI maxnan; AVArrI idx; AVArrF xs; AVArrF outbuf; AVArrI [ie]] /\
       KernelDutils.run_flathomogen N X n maxnan idx xs outbuf =
       exec_fun N X program (S n) "c_flathomogen"
         [AVI (zlen idx); AVI maxnan; AVArrI idx; AVArrF xs; AVArrF outbuf].
Proof. exact @KernelDutils.run_dutils_is_exec. Qed.
Print Assumptions C08_kernel_run_dutils.

(* non-decreasing index, >= 1 value, every operator / maxnan / NaN placement: the translated c_aggregate returns 0, sets iend[0] to the number of groups and writes one value per group = reduce of the group, the rest of the buffer untouched *)
Theorem C08_kernel_aggregate_spec :
  forall (op maxnan : Z) (idx : list Z) (xs outbuf : list (option R)) (ie : Z) (n : nat),
       Datatypes.length idx = Datatypes.length xs ->
       (1 <= Datatypes.length xs)%nat ->
       Datatypes.length outbuf = Datatypes.length idx ->
       DutilsProofs.nondecr idx ->
       (Datatypes.length idx < n)%nat ->
       let res :=
         map (fun kg : Z * list (option R) => DutilsProofs.reduce op maxnan (snd kg))
           (DutilsProofs.runs (combine idx xs)) in
       KernelDutils.run_aggregate RN XRN n op maxnan idx xs outbuf ie =
       Ok
         (RI 0,
          [VArrI idx; VArrF xs; VArrF (res ++ skipn (Datatypes.length res) outbuf);
           VArrI [Z.of_nat (Datatypes.length res)]]) /\
       (Datatypes.length res <= Datatypes.length outbuf)%nat.
Proof. exact @KernelDutils.kernel_aggregate_spec. Qed.
Print Assumptions C08_kernel_aggregate_spec.

(* operator sum, every group within maxnan: the values written add up to the sum of the non-missing inputs *)
Theorem C08_kernel_aggregate_sum_conserved :
  forall (maxnan : Z) (idx : list Z) (xs outbuf : list (option R)) (ie : Z) (n : nat),
       Datatypes.length idx = Datatypes.length xs ->
       (1 <= Datatypes.length xs)%nat ->
       Datatypes.length outbuf = Datatypes.length idx ->
       DutilsProofs.nondecr idx ->
       (Datatypes.length idx < n)%nat ->
       Forall (fun kg : Z * list (option R) => DutilsProofs.nmiss (snd kg) <= maxnan)
         (DutilsProofs.runs (combine idx xs)) ->
       exists outs : list R,
         KernelDutils.run_aggregate RN XRN n 0 maxnan idx xs outbuf ie =
         Ok
           (RI 0,
            [VArrI idx; VArrF xs; VArrF (map Some outs ++ skipn (Datatypes.length outs) outbuf);
             VArrI [Z.of_nat (Datatypes.length outs)]]) /\
         DutilsProofs.lsum outs = DutilsProofs.lsum (DutilsProofs.present xs).
Proof. exact @KernelDutils.kernel_aggregate_sum_conserved. Qed.
Print Assumptions C08_kernel_aggregate_sum_conserved.

(* an index that decreases anywhere: positive return code, index / inputs / iend untouched (every arithmetic instance with (double)0 = 0, binary64 included) *)
Theorem C08_kernel_aggregate_rejects_decreasing_index :
  forall (T : Type) (N : NumOps T) (X : NumLit T) (op maxnan : Z) 
         (idx : list Z) (xs outbuf : list T) (ie : Z) (n : nat),
       nofZ N 0 = n0 N ->
       Datatypes.length idx = Datatypes.length xs ->
       Datatypes.length outbuf = Datatypes.length idx ->
       DutilsProofs.decreases_somewhere idx ->
       (Datatypes.length idx < n)%nat ->
       exists (code : Z) (out' : list T),
         0 < code /\
         Datatypes.length out' = Datatypes.length outbuf /\
         KernelDutils.run_aggregate N X n op maxnan idx xs outbuf ie =
         Ok (RI code, [VArrI idx; VArrF xs; VArrF out'; VArrI [ie]]).
Proof. exact @KernelDutils.kernel_aggregate_rejects_decreasing. Qed.
Print Assumptions C08_kernel_aggregate_rejects_decreasing_index.

(* the translated c_flathomogen returns 0 and writes one block per group = flat_group of the group: same length, and the same total when the group is within maxnan *)
Theorem C08_kernel_flathomogen_preserves_group_totals :
  forall (maxnan : Z) (idx : list Z) (xs outbuf : list (option R)) (n : nat),
       Datatypes.length idx = Datatypes.length xs ->
       (1 <= Datatypes.length xs)%nat ->
       Datatypes.length outbuf = Datatypes.length idx ->
       DutilsProofs.nondecr idx ->
       (Datatypes.length idx < n)%nat ->
       exists blocks : list (list (option R)),
         KernelDutils.run_flathomogen RN XRN n maxnan idx xs outbuf =
         Ok (RI 0, [VArrI idx; VArrF xs; VArrF (List.concat blocks)]) /\
         Forall2
           (fun (kg : Z * list (option R)) (b : list (option R)) =>
            b = DutilsProofs.flat_group maxnan (snd kg) /\
            Datatypes.length b = Datatypes.length (snd kg) /\
            (DutilsProofs.nmiss (snd kg) <= maxnan ->
             DutilsProofs.lsum (DutilsProofs.present b) =
             DutilsProofs.lsum (DutilsProofs.present (snd kg))))
           (DutilsProofs.runs (combine idx xs)) blocks.
Proof. exact @KernelDutils.kernel_flathomogen_preserves_group_totals. Qed.
Print Assumptions C08_kernel_flathomogen_preserves_group_totals.

(* whole series: same length, missing stays missing, total of the non-missing values conserved when every group is within maxnan *)
Theorem C08_kernel_flathomogen_total_conserved :
  forall (maxnan : Z) (idx : list Z) (xs outbuf : list (option R)) (n : nat),
       Datatypes.length idx = Datatypes.length xs ->
       (1 <= Datatypes.length xs)%nat ->
       Datatypes.length outbuf = Datatypes.length idx ->
       DutilsProofs.nondecr idx ->
       (Datatypes.length idx < n)%nat ->
       exists out : list (option R),
         KernelDutils.run_flathomogen RN XRN n maxnan idx xs outbuf =
         Ok (RI 0, [VArrI idx; VArrF xs; VArrF out]) /\
         Datatypes.length out = Datatypes.length xs /\
         Forall2 (fun x o : option R => x = None -> o = None) xs out /\
         (Forall (fun kg : Z * list (option R) => DutilsProofs.nmiss (snd kg) <= maxnan)
            (DutilsProofs.runs (combine idx xs)) ->
          DutilsProofs.lsum (DutilsProofs.present out) =
          DutilsProofs.lsum (DutilsProofs.present xs)).
Proof. exact @KernelDutils.kernel_flathomogen_total_conserved. Qed.
Print Assumptions C08_kernel_flathomogen_total_conserved.

(* decreasing index: positive return code (every arithmetic instance) *)
Theorem C08_kernel_flathomogen_rejects_decreasing_index :
  forall (T : Type) (N : NumOps T) (X : NumLit T) (maxnan : Z) (idx : list Z)
         (xs outbuf : list T) (n : nat),
       nofZ N 0 = n0 N ->
       Datatypes.length idx = Datatypes.length xs ->
       Datatypes.length outbuf = Datatypes.length idx ->
       DutilsProofs.decreases_somewhere idx ->
       (Datatypes.length idx < n)%nat ->
       exists (code : Z) (out' : list T),
         0 < code /\
         Datatypes.length out' = Datatypes.length outbuf /\
         KernelDutils.run_flathomogen N X n maxnan idx xs outbuf =
         Ok (RI code, [VArrI idx; VArrF xs; VArrF out']).
Proof. exact @KernelDutils.kernel_flathomogen_rejects_decreasing. Qed.
Print Assumptions C08_kernel_flathomogen_rejects_decreasing_index.

(* non-vacuity: the worked instance above (maximum, maxnan = 1) executed on the translated kernel *)
Theorem C08_kernel_aggregate_example :
  KernelDutils.run_aggregate RN XRN 6 2 1 DutilsProofs.ex_idx DutilsProofs.ex_xs
         [Some 0%R; None; Some 0%R; Some 0%R; Some 0%R] 0 =
       Ok
         (RI 0,
          [VArrI DutilsProofs.ex_idx; VArrF DutilsProofs.ex_xs;
           VArrF [Some (-1)%R; Some (-2)%R; Some 4%R; Some 0%R; Some 0%R]; 
           VArrI [3]]).
Proof. exact @KernelDutils.kernel_aggregate_example. Qed.
Print Assumptions C08_kernel_aggregate_example.

(* non-vacuity of the rejection, binary64 *)
Theorem C08_kernel_aggregate_decreasing_example :
  exists (code : Z) (out' : list float),
         0 < code /\
         Datatypes.length out' = 3%nat /\
         KernelDutils.run_aggregate F64 XF64 4 0 0 [199502; 199501; 199503]
           [1%float; 2%float; 3%float] [0%float; 0%float; 0%float] 0 =
         Ok
           (RI code,
            [VArrI [199502; 199501; 199503]; VArrF [1%float; 2%float; 3%float]; 
             VArrF out'; VArrI [0]]).
Proof. exact @KernelDutils.kernel_aggregate_decreasing_example. Qed.
Print Assumptions C08_kernel_aggregate_decreasing_example.

(* ================================================================== *)
(* 4. the calendar the month blocks are cut with: the two tables of c_dateutils.c
   (days_in_month[] regenerated in Gen/ConstsC08.v; day_of_year[] = the function the
   regenerated c_dateutils_dayofyear computes, Proofs/ChkData.v) agree with each other
   and with the day stepping kernel (c_add1day = what the regenerated c_dateutils_add1day
   computes).  Proofs/CalendarDoy.v *)
From Hy Require Proofs.ChkData Proofs.CalendarDoy.

(* day_of_year[] is the running sum of days_in_month[] *)
Theorem C08_doy_is_prefix_sum (m : nat) :
  (1 <= m <= 12)%nat -> nth m ChkData.DAY_OF_YEAR 0 = CalendarDoy.prefix_days (m - 1).
Proof. exact (CalendarDoy.doy_is_prefix_sum m). Qed.
Print Assumptions C08_doy_is_prefix_sum.

Theorem C08_doy_range y m d : CalendarDoy.valid_date y m d ->
  1 <= ChkData.day_of_year m d <= 365 /\
  1 <= CalendarDoy.doy y m d <= (if is_leap y then 366 else 365).
Proof. exact (CalendarDoy.doy_range y m d). Qed.
Print Assumptions C08_doy_range.

(* one day step from any valid date: valid again, one day later in the same year or
   1 January of the next year from the last day *)
Theorem C08_add1day_advances_doy y m d : CalendarDoy.valid_date y m d ->
  exists y' m' d', c_add1day (y, m, d) = Some (y', m', d') /\ CalendarDoy.valid_date y' m' d' /\
    ((y' = y /\ CalendarDoy.doy y m' d' = CalendarDoy.doy y m d + 1) \/
     (y' = y + 1 /\ m' = 1 /\ d' = 1 /\
      CalendarDoy.doy y m d = (if is_leap y then 366 else 365))).
Proof. exact (CalendarDoy.add1day_doy_leap y m d). Qed.
Print Assumptions C08_add1day_advances_doy.

(* every year, of any sign or size: n steps from 1 January reach day n + 1, and the
   year is over after exactly 365 or 366 steps *)
Theorem C08_days_from_jan1 y (n : nat) :
  Z.of_nat n < (if is_leap y then 366 else 365) ->
  exists m d, CalendarDoy.add_days n (y, 1, 1) = Some (y, m, d) /\ CalendarDoy.valid_date y m d /\
              CalendarDoy.doy y m d = Z.of_nat n + 1.
Proof. exact (CalendarDoy.days_from_jan1_doy y n). Qed.
Print Assumptions C08_days_from_jan1.

Theorem C08_year_has_its_length y :
  CalendarDoy.add_days (Z.to_nat (if is_leap y then 366 else 365)) (y, 1, 1) = Some (y + 1, 1, 1).
Proof. exact (CalendarDoy.year_has_its_length y). Qed.
Print Assumptions C08_year_has_its_length.

(* non-vacuity *)
Example C08_calendar_examples :
  CalendarDoy.add_days 59 (2024, 1, 1) = Some (2024, 2, 29) /\
  CalendarDoy.add_days 59 (2023, 1, 1) = Some (2023, 3, 1) /\
  CalendarDoy.add_days 365 (2023, 1, 1) = Some (2024, 1, 1) /\
  CalendarDoy.add_days 365 (2024, 1, 1) = Some (2024, 12, 31).
Proof. exact CalendarDoy.ex_steps. Qed.
Print Assumptions C08_calendar_examples.
