(* PyTieScores - the tie of the remaining generated definitions of Gen/PyGen.v
   (stat/metrics.py bias / nse / kge / binary, stat/sutils.py ppos,
   plot/boxplot.py compute_percentiles, io/hyruns.py get_batch) to the hand-written
   models (Model/Scores.v, Model/Summary.v, Model/Hyruns.v): generated definition =
   model, for ALL arguments, over the real-number instance RR.  A semantic edit of one
   of these formulas / guards in the Python source changes Gen/PyGen.v and breaks the
   corresponding proof.  Statements only; proofs are `exact <lemma>` of
   Proofs/PyGenScoresProofs.v.

   Instantiation: np_mean := mean RR, np_sum := np_sum RR, np_std := std RR,
   np_corrcoef01 := pearson RR, trans := the model's fwd, math.log := ln; in the model
   eps := gen_EPS_metrics, excl := false (the definitions are generated for
   excludenull=False).

   Result types: the model's [sout] is SErr (ValueError of the shape test, which the
   translator skips as glue) | SNan (np.nan) | SVal v; [sout_of] maps None to SNan and
   Some v to SVal v.  For [binary] the model over RR stores NaN as [nnan RR] ([nan_of]);
   over RN (option R, None = NaN) the NaN-able outputs are equal as options.

   DISCREPANCIES found (each is a theorem below):
   1. (repaired) the constant the code compares with is the binary64 number
      7737125245533627/2^86 (the literal 1e-10); the extractor of C04 used to render the
      decimal 1/10^10 into Gen/ConstsC04.v (3.6e-27 smaller: `bias` of the series
      [1/10^10] was SVal 0 in the model and nan in the source).  The extractor now emits
      the exact binary64 value and PyTie_EPS_metrics_is_C04 proves the two constants equal.
   2. PyTie_binary: the model raises (BErr) when TP > 0 and TP = nval (float division by
      math.log(1.0) = 0.0); the translator does not represent ZeroDivisionError, the
      generated EDS is then the real number -1 (PyTie_binary_EDS_division_case).
   3. truepos / falsepos / trueneg / falseneg have no counterpart in the model's record
      (PyTie_binary_cells: they return the cells unchanged). *)
From Coq Require Import ZArith Bool List Reals.
From Hy Require Import Base.Num Gen.Consts Gen.ConstsC04 Gen.ConstsC20 Gen.PyGen
  Model.Scores Model.Summary Model.Hyruns
  Proofs.ScoresProofs Proofs.ScoresRealProofs Proofs.ScoresMissingProofs
  Proofs.PyGenScoresProofs.
Import ListNotations.
Open Scope R_scope.

(* ================================================================== *)
(* the module constant EPS of metrics.py                                *)

(* as read by the translator: the same number as transform.py's EPS, and the exact value
   of the binary64 constant of the executable instance *)
Theorem PyTie_EPS_metrics :
  gen_EPS_metrics = gen_EPS /\ 0 < gen_EPS_metrics /\
  FloatOps.Prim2SF C04_EPS_F = SpecFloat.S754_finite false 7737125245533627 (-86) /\
  gen_EPS_metrics = IZR 7737125245533627 / IZR (2 ^ 86).
Proof.
  exact (conj gen_EPS_metrics_transform (conj gen_EPS_metrics_pos C04_EPS_F_exact)).
Qed.
Print Assumptions PyTie_EPS_metrics.

(* it IS the constant used by the theorems of Props/C04.v (the extractor of C04 used to
   render the decimal 1/10^10 instead of the binary64 value: repaired, see the header) *)
Theorem PyTie_EPS_metrics_is_C04 : C04_EPS_R = gen_EPS_metrics.
Proof. exact gen_EPS_metrics_is_C04. Qed.
Print Assumptions PyTie_EPS_metrics_is_C04.

Theorem PyTie_bias_C04_constant : forall obs sim trans,
  bias_core RR C04_EPS_R ln BStd (map trans obs) (map trans sim) =
    sout_of (gen_bias_standard (mean RR) obs sim trans) /\
  bias_core RR C04_EPS_R ln BNorm (map trans obs) (map trans sim) =
    sout_of (gen_bias_normalised (mean RR) obs sim trans).
Proof. exact pygen_bias_C04_constant. Qed.
Print Assumptions PyTie_bias_C04_constant.

(* ================================================================== *)
(* bias                                                                 *)

Theorem PyTie_bias :
  (forall obs sim trans,
   bias RR gen_EPS_metrics ln trans false BStd obs sim =
   if Nat.eqb (length obs) (length sim)
   then sout_of (gen_bias_standard (mean RR) obs sim trans) else SErr) /\
  (forall obs sim trans,
   bias RR gen_EPS_metrics ln trans false BNorm obs sim =
   if Nat.eqb (length obs) (length sim)
   then sout_of (gen_bias_normalised (mean RR) obs sim trans) else SErr) /\
  (forall obs sim trans,
   bias RR gen_EPS_metrics ln trans false BLog obs sim =
   if Nat.eqb (length obs) (length sim)
   then sout_of (gen_bias_log (mean RR) obs sim trans) else SErr).
Proof. exact (conj pygen_bias_standard (conj pygen_bias_normalised pygen_bias_log)). Qed.
Print Assumptions PyTie_bias.

(* the closed form after the shape test, on the transformed series *)
Theorem PyTie_bias_core :
  (forall obs sim trans,
   bias_core RR gen_EPS_metrics ln BStd (map trans obs) (map trans sim) =
   sout_of (gen_bias_standard (mean RR) obs sim trans)) /\
  (forall obs sim trans,
   bias_core RR gen_EPS_metrics ln BNorm (map trans obs) (map trans sim) =
   sout_of (gen_bias_normalised (mean RR) obs sim trans)) /\
  (forall obs sim trans,
   bias_core RR gen_EPS_metrics ln BLog (map trans obs) (map trans sim) =
   sout_of (gen_bias_log (mean RR) obs sim trans)).
Proof.
  exact (conj pygen_bias_standard_core (conj pygen_bias_normalised_core pygen_bias_log_core)).
Qed.
Print Assumptions PyTie_bias_core.

(* C04_bias_definition about the GENERATED definitions (guards with the code's constant) *)
Theorem PyTie_bias_definition :
  (forall obs sim trans,
   Rabs (meanR (map trans obs)) < gen_EPS_metrics ->
   gen_bias_standard (mean RR) obs sim trans = None /\
   gen_bias_normalised (mean RR) obs sim trans = None /\
   gen_bias_log (mean RR) obs sim trans = None) /\
  (forall obs sim trans,
   gen_EPS_metrics <= Rabs (meanR (map trans obs)) ->
   let o := map trans obs in let s := map trans sim in
   gen_bias_standard (mean RR) obs sim trans = Some ((meanR s - meanR o) / meanR o) /\
   gen_bias_normalised (mean RR) obs sim trans = Some ((meanR s - meanR o) / (meanR s + meanR o)) /\
   (gen_EPS_metrics < meanR s -> gen_EPS_metrics < meanR o ->
    gen_bias_log (mean RR) obs sim trans = Some (ln (meanR s) - ln (meanR o))) /\
   (meanR s <= gen_EPS_metrics \/ meanR o <= gen_EPS_metrics ->
    gen_bias_log (mean RR) obs sim trans = None)).
Proof. exact (conj pycor_bias_nan pycor_bias_definition). Qed.
Print Assumptions PyTie_bias_definition.

(* C04_perfect_simulation, bias *)
Theorem PyTie_bias_perfect_simulation : forall obs trans,
  gen_EPS_metrics <= Rabs (meanR (map trans obs)) ->
  gen_bias_standard (mean RR) obs obs trans = Some 0 /\
  gen_bias_normalised (mean RR) obs obs trans = Some 0 /\
  (gen_EPS_metrics < meanR (map trans obs) -> gen_bias_log (mean RR) obs obs trans = Some 0).
Proof. exact pycor_bias_perfect. Qed.
Print Assumptions PyTie_bias_perfect_simulation.

(* ================================================================== *)
(* nse                                                                  *)

Theorem PyTie_nse :
  (forall obs sim trans,
   nse RR trans false obs sim =
   if Nat.eqb (length obs) (length sim)
   then SVal (gen_nse (np_sum RR) (mean RR) obs sim trans) else SErr) /\
  (forall obs sim trans,
   nse_core RR (map trans obs) (map trans sim) =
   SVal (gen_nse (np_sum RR) (mean RR) obs sim trans)).
Proof. exact (conj pygen_nse pygen_nse_core). Qed.
Print Assumptions PyTie_nse.

(* C04_nse_definition, C04_perfect_simulation, C04_nse_mean_simulation, C04_upper_bounds
   about the GENERATED definition *)
Theorem PyTie_nse_properties :
  (forall obs sim trans,
   gen_nse (np_sum RR) (mean RR) obs sim trans =
   1 - SE (map trans obs) (map trans sim) / SS (map trans obs)) /\
  (forall obs trans,
   0 < SS (map trans obs) -> gen_nse (np_sum RR) (mean RR) obs obs trans = 1) /\
  (forall obs sim trans,
   0 < SS (map trans obs) ->
   map trans sim = map (fun _ => meanR (map trans obs)) (map trans obs) ->
   gen_nse (np_sum RR) (mean RR) obs sim trans = 0) /\
  (forall obs sim trans,
   0 < SS (map trans obs) -> gen_nse (np_sum RR) (mean RR) obs sim trans <= 1).
Proof.
  exact (conj pycor_nse_definition (conj pycor_nse_perfect
        (conj pycor_nse_mean_simulation pycor_nse_le_1))).
Qed.
Print Assumptions PyTie_nse_properties.

(* ================================================================== *)
(* kge                                                                  *)

Theorem PyTie_kge :
  (forall obs sim trans,
   kge RR gen_EPS_metrics trans false obs sim =
   if Nat.eqb (length obs) (length sim)
   then sout_of (gen_kge (mean RR) (std RR) (pearson RR) obs sim trans) else SErr) /\
  (forall obs sim trans,
   kge_core RR gen_EPS_metrics (map trans obs) (map trans sim) =
   sout_of (gen_kge (mean RR) (std RR) (pearson RR) obs sim trans)).
Proof. exact (conj pygen_kge pygen_kge_core). Qed.
Print Assumptions PyTie_kge.

(* C04_kge_definition, C04_perfect_simulation, C04_upper_bounds about the GENERATED
   definition; [gen_kge_defined o s] : EPS <= |mean o|, EPS <= sd o, EPS < sd s with the
   code's constant (it implies the kge_defined of C04) *)
Theorem PyTie_kge_properties :
  (forall obs sim trans,
   length obs = length sim -> gen_kge_defined (map trans obs) (map trans sim) ->
   gen_kge (mean RR) (std RR) (pearson RR) obs sim trans =
   Some (let o := map trans obs in let s := map trans sim in
         1 - sqrt ((1 - meanR s / meanR o) * (1 - meanR s / meanR o)
                   + (1 - sdR s / sdR o) * (1 - sdR s / sdR o)
                   + (1 - pearsonR o s) * (1 - pearsonR o s)))) /\
  (forall obs sim trans,
   Rabs (meanR (map trans obs)) < gen_EPS_metrics \/ sdR (map trans obs) < gen_EPS_metrics \/
   sdR (map trans sim) <= gen_EPS_metrics ->
   gen_kge (mean RR) (std RR) (pearson RR) obs sim trans = None) /\
  (forall obs trans,
   gen_kge_defined (map trans obs) (map trans obs) ->
   gen_kge (mean RR) (std RR) (pearson RR) obs obs trans = Some 1) /\
  (forall obs sim trans,
   length obs = length sim -> gen_kge_defined (map trans obs) (map trans sim) ->
   exists v, gen_kge (mean RR) (std RR) (pearson RR) obs sim trans = Some v /\ v <= 1).
Proof.
  exact (conj pycor_kge_definition (conj pycor_kge_nan (conj pycor_kge_perfect pycor_kge_le_1))).
Qed.
Print Assumptions PyTie_kge_properties.

(* non-vacuity: obs = [1; 2; 4], sim = [2; 2; 5] of C04 meet the generated guards *)
Example PyTie_continuous_nonvacuous :
  gen_kge_defined ex_obs ex_sim /\ gen_kge_defined ex_obs ex_obs /\
  gen_EPS_metrics < meanR ex_obs /\ 0 < SS ex_obs.
Proof. exact pycor_continuous_nonvacuous. Qed.
Print Assumptions PyTie_continuous_nonvacuous.

(* ================================================================== *)
(* binary                                                               *)

(* [gen_binary_scores tn fp fn tp] is the record of the ten generated scores (LOR, ORSS,
   EDS through nan_of); [binary_eds_raises] = (0 <? tp) && (tp =? (tp+fn)+(tn+fp)).
   DISCREPANCY 2: see the head of the file *)
Theorem PyTie_binary : forall tn fp fn tp,
  binary RR ln tn fp fn tp =
  if binary_eds_raises tn fp fn tp then BErr else BOk (gen_binary_scores tn fp fn tp).
Proof. exact pygen_binary. Qed.
Print Assumptions PyTie_binary.

(* over RN (None = NaN) the generated options ARE the model's outputs *)
Theorem PyTie_binary_RN : forall tn fp fn tp,
  binary RN lnN tn fp fn tp =
  if binary_eds_raises tn fp fn tp then BErr else BOk (gen_binary_scores_N tn fp fn tp).
Proof. exact pygen_binary_RN. Qed.
Print Assumptions PyTie_binary_RN.

(* output by output: the model's building blocks, the guards extracted into
   Gen/ConstsC04.v (LOR_GUARD, ORSS_GUARD) *)
Theorem PyTie_binary_parts : forall tn fp fn tp,
  gen_binary_hitrate tn fp fn tp = hit_rate RR fn tp /\
  gen_binary_falsealarm tn fp fn tp = false_alarm RR tn fp /\
  Some (gen_binary_MCC tn fp fn tp) = mcc_fix RR tn fp fn tp /\
  gen_binary_LOR tn fp fn tp =
    (let H := hit_rate RR fn tp in let F := false_alarm RR tn fp in
     let theta := odds_theta RR H F in
     if guard_ok RR LOR_GUARD H F theta then Some (ln theta) else None) /\
  gen_binary_ORSS tn fp fn tp =
    (let H := hit_rate RR fn tp in let F := false_alarm RR tn fp in
     let theta := odds_theta RR H F in
     if guard_ok RR ORSS_GUARD H F theta then Some ((theta - 1) / (theta + 1)) else None) /\
  gen_binary_EDS tn fp fn tp =
    (let nval := ((tp + fn) + (tn + fp))%Z in
     if (0 <? tp)%Z
     then Some ((IZR 2 * ln (IZR (tp + fn) / IZR nval)) / ln (IZR tp / IZR nval) - 1)
     else None).
Proof.
  intros tn fp fn tp.
  exact (conj (pygen_binary_hitrate tn fp fn tp) (conj (pygen_binary_falsealarm tn fp fn tp)
        (conj (pygen_binary_MCC tn fp fn tp) (conj (pygen_binary_LOR tn fp fn tp)
        (conj (pygen_binary_ORSS tn fp fn tp) (pygen_binary_EDS tn fp fn tp)))))).
Qed.
Print Assumptions PyTie_binary_parts.

(* DISCREPANCY 3: the four cells are returned unchanged; no field in the model *)
Theorem PyTie_binary_cells : forall tn fp fn tp,
  gen_binary_truepos tn fp fn tp = tp /\ gen_binary_falsepos tn fp fn tp = fp /\
  gen_binary_trueneg tn fp fn tp = tn /\ gen_binary_falseneg tn fp fn tp = fn.
Proof. exact pygen_binary_cells. Qed.
Print Assumptions PyTie_binary_cells.

(* DISCREPANCY 2, the case itself: only TP > 0 is non-zero *)
Theorem PyTie_binary_EDS_division_case :
  (forall tp, (0 < tp)%Z ->
   binary_eds_raises 0 0 0 tp = true /\ binary RR ln 0 0 0 tp = BErr /\
   gen_binary_EDS 0 0 0 tp = Some (-1)) /\
  (forall tn fp fn tp, (0 <= tn)%Z -> (0 <= fp)%Z -> (0 <= fn)%Z ->
   binary_eds_raises tn fp fn tp = true <-> (0 < tp /\ tn = 0 /\ fp = 0 /\ fn = 0)%Z).
Proof. exact (conj pygen_binary_EDS_division_case binary_eds_raises_spec). Qed.
Print Assumptions PyTie_binary_EDS_division_case.

(* C04_binary_scores / C04_binary_ranges about the GENERATED definitions: every table with
   four positive counts *)
Theorem PyTie_binary_scores : forall tn fp fn tp,
  (0 < tn)%Z -> (0 < fp)%Z -> (0 < fn)%Z -> (0 < tp)%Z ->
  let a := IZR tp in let b := IZR fp in let c := IZR fn in let d := IZR tn in
  gen_binary_hitrate tn fp fn tp = a / (a + c) /\
  gen_binary_falsealarm tn fp fn tp = b / (d + b) /\
  gen_binary_precision tn fp fn tp = a / (a + b) /\
  gen_binary_accuracy tn fp fn tp = (a + d) / (a + c + (d + b)) /\
  gen_binary_bias tn fp fn tp = (a + b) / (a + c) /\
  gen_binary_F1 tn fp fn tp = (2 * a) / (2 * a + b + c) /\
  gen_binary_MCC tn fp fn tp = (a * d - b * c) / sqrt ((a + b) * (a + c) * (d + b) * (d + c)) /\
  gen_binary_LOR tn fp fn tp = Some (ln ((a * d) / (b * c))) /\
  gen_binary_ORSS tn fp fn tp = Some ((a * d - b * c) / (a * d + b * c)).
Proof. exact pycor_binary_fields. Qed.
Print Assumptions PyTie_binary_scores.

Theorem PyTie_binary_ranges : forall tn fp fn tp,
  (0 < tn)%Z -> (0 < fp)%Z -> (0 < fn)%Z -> (0 < tp)%Z ->
  0 < gen_binary_hitrate tn fp fn tp < 1 /\ 0 < gen_binary_falsealarm tn fp fn tp < 1 /\
  0 < gen_binary_precision tn fp fn tp < 1 /\ 0 < gen_binary_accuracy tn fp fn tp < 1 /\
  0 < gen_binary_F1 tn fp fn tp < 1 /\
  gen_binary_MCC tn fp fn tp * gen_binary_MCC tn fp fn tp <= 1 /\
  exists v, gen_binary_ORSS tn fp fn tp = Some v /\ -1 < v < 1.
Proof. exact pycor_binary_ranges. Qed.
Print Assumptions PyTie_binary_ranges.

(* ================================================================== *)
(* sutils.ppos: the generated definition is one element of the array     *)
(* (the guard, then (i-cst)/(nval+1-2*cst)); nval, i integers (IZR)       *)

Theorem PyTie_ppos :
  (forall n cst i,
   gen_ppos (IZR n) cst (IZR i) =
   if ppos_cst_ok RR cst then Some (ppos_at RR n cst i) else None) /\
  (forall n cst,
   ppos RR n cst =
   if ppos_cst_ok RR cst
   then opt_all (map (fun i => gen_ppos (IZR n) cst (IZR i)) (Summary.zseq 1 (Z.to_nat n)))
   else None) /\
  (forall n cst, (0 < n)%Z ->
   ppos RR n cst =
   opt_all (map (fun i => gen_ppos (IZR n) cst (IZR i)) (Summary.zseq 1 (Z.to_nat n)))).
Proof. exact (conj pygen_ppos_elt (conj pygen_ppos pygen_ppos_pos)). Qed.
Print Assumptions PyTie_ppos.

(* the guard and the element in closed form *)
Theorem PyTie_ppos_closed_form :
  (forall cst, ppos_cst_ok RR cst = negb (Rltb cst 0 || Rltb (1 / 2) cst)) /\
  (forall n cst i, ppos_at RR n cst i = (IZR i - cst) / ((IZR n + 1) - 2 * cst)).
Proof. exact (conj pygen_ppos_guard pygen_ppos_at). Qed.
Print Assumptions PyTie_ppos_closed_form.

(* C20_ppos_array / C20_ppos_rejects about the GENERATED definition *)
Theorem PyTie_ppos_array : forall n cst l, 0 <= cst <= 1 / 2 ->
  opt_all (map (fun i => gen_ppos (IZR n) cst (IZR i)) (Summary.zseq 1 (Z.to_nat n))) = Some l ->
  length l = Z.to_nat n /\
  (forall k, (k < length l)%nat -> 0 < nth k l 0 < 1) /\
  (forall k k', (k < k' < length l)%nat -> nth k l 0 < nth k' l 0) /\
  (forall k, (k < length l)%nat -> nth k l 0 + nth (length l - 1 - k) l 0 = 1).
Proof. exact pycor_ppos_array. Qed.
Print Assumptions PyTie_ppos_array.

Theorem PyTie_ppos_rejects : forall n cst i,
  cst < 0 \/ 1 / 2 < cst -> gen_ppos n cst i = None.
Proof. exact pycor_ppos_rejects. Qed.
Print Assumptions PyTie_ppos_rejects.

(* ================================================================== *)
(* boxplot.compute_percentiles                                          *)

Theorem PyTie_compute_percentiles : forall coverage,
  compute_percentiles RR coverage =
  (gen_compute_percentiles_0 coverage, gen_compute_percentiles_1 coverage).
Proof. exact pygen_compute_percentiles. Qed.
Print Assumptions PyTie_compute_percentiles.

(* the two levels are symmetric about 50 and span the coverage *)
Theorem PyTie_compute_percentiles_symmetric : forall coverage,
  gen_compute_percentiles_0 coverage + gen_compute_percentiles_1 coverage = 100 /\
  gen_compute_percentiles_1 coverage - gen_compute_percentiles_0 coverage = coverage.
Proof. exact pycor_percentiles_symmetric. Qed.
Print Assumptions PyTie_compute_percentiles_symmetric.

(* ================================================================== *)
(* hyruns.get_batch: the argument checks                                *)

Theorem PyTie_get_batch :
  (forall n k i,
   gen_get_batch_ok n k i = match get_batch n k i with Some _ => true | None => false end) /\
  (forall n k i,
   get_batch n k i =
   if gen_get_batch_ok n k i
   then Some (Hyruns.zseq (batch_start n k i) (Z.to_nat (batch_size n k i))) else None).
Proof. exact (conj pygen_get_batch_ok pygen_get_batch). Qed.
Print Assumptions PyTie_get_batch.

(* C19_get_batch_rejects, both directions, about the GENERATED definition *)
Theorem PyTie_get_batch_accepts_iff : forall n k i,
  gen_get_batch_ok n k i = true <-> (1 <= n /\ k <= n /\ 0 <= i < k)%Z.
Proof. exact pycor_get_batch_ok_spec. Qed.
Print Assumptions PyTie_get_batch_accepts_iff.
