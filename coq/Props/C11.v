(* C11 - flow accumulation equals the sum over everything upstream.
   Statements only; proofs are `exact <lemma>` from Proofs/AccProofs.v.
   [accumulate] is the model of c_accumulate (c_grid.c) initialised as
   grid.py:accumulate does; [downstream]/[upstream_hits] use the direction-code
   table re-extracted from grid.py (Gen/Consts.v). *)
From Coq Require Import ZArith Bool List Reals PrimFloat.
From Hy Require Import Base.Num Gen.Consts Model.Grid Model.Catchment Model.Accumulate
     Proofs.FlowProofs Proofs.AccProofs.
Import ListNotations.
Open Scope Z_scope.

(* Termination: any arithmetic (binary64 included), any grid - cycles, invalid
   codes - any cap >= 1: the kernel returns a grid; bad scalars are rejected. *)
Theorem C11_accumulate_returns : forall T (N : NumOps T) nrows ncols maxcells nodata fd field,
  1 <= maxcells -> 1 <= nrows ->
  exists res, accumulate N nrows ncols maxcells nodata fd field = Some res.
Proof. exact @accumulate_returns. Qed.
Print Assumptions C11_accumulate_returns.

Theorem C11_accumulate_rejects : forall T (N : NumOps T) nrows ncols maxcells nodata fd field,
  maxcells < 1 \/ nrows < 1 -> accumulate N nrows ncols maxcells nodata fd field = None.
Proof. exact @accumulate_rejects. Qed.
Print Assumptions C11_accumulate_rejects.

(* "without cycles": no cell reaches itself in >= 1 downstream steps.  Then,
   with the default cap (nrows*ncols) or any larger one, every walk leaves the
   grid before the cap: the hypothesis [complete] of the theorems below holds. *)
Theorem C11_acyclic_walks_complete : forall nrows ncols fd maxcells,
  0 < ncols -> acyclic nrows ncols fd -> 1 <= maxcells -> nrows * ncols <= maxcells ->
  complete nrows ncols fd (Z.to_nat (maxcells + 1)).
Proof. exact acyclic_default_cap_complete. Qed.
Print Assumptions C11_acyclic_walks_complete.

(* A cell that drains into another cell holds the sum of the field over itself
   and every cell draining through it - [through c] lists exactly the cells
   that reach c in >= 1 downstream steps, each once. *)
Theorem C11_acc_is_upstream_sum : forall nrows ncols maxcells fd field nodata res,
  0 < ncols -> zlen field = nrows * ncols ->
  complete nrows ncols fd (Z.to_nat (maxcells + 1)) ->
  accumulate RR nrows ncols maxcells nodata fd field = Some res ->
  forall c d, 0 <= c < nrows * ncols -> downstream nrows ncols fd c = Some d -> 0 <= d ->
  zn res c 0%R = (zn field c 0 + Rsum (map (fun i => zn field i 0%R)
                                          (through nrows ncols fd (Z.to_nat (maxcells + 1)) c)))%R /\
  NoDup (through nrows ncols fd (Z.to_nat (maxcells + 1)) c) /\
  (forall i, In i (through nrows ncols fd (Z.to_nat (maxcells + 1)) c) <->
             (0 <= i < nrows * ncols /\ exists k, steps nrows ncols fd (S k) i c)).
Proof. exact acc_is_upstream_sum. Qed.
Print Assumptions C11_acc_is_upstream_sum.

(* the default unit field: the number of such cells (the cell itself included) *)
Theorem C11_acc_unit_field_counts : forall nrows ncols maxcells fd field nodata res,
  0 < ncols -> zlen field = nrows * ncols ->
  complete nrows ncols fd (Z.to_nat (maxcells + 1)) ->
  accumulate RR nrows ncols maxcells nodata fd field = Some res ->
  forall c d, (forall i, 0 <= i < nrows * ncols -> zn field i 0%R = 1%R) ->
  0 <= c < nrows * ncols -> downstream nrows ncols fd c = Some d -> 0 <= d ->
  zn res c 0%R = (1 + INR (List.length (through nrows ncols fd (Z.to_nat (maxcells + 1)) c)))%R.
Proof. exact acc_unit_field_counts. Qed.
Print Assumptions C11_acc_unit_field_counts.

(* ... and equals its own contribution plus the accumulated values of its
   direct upstream neighbours (the cells whose downstream cell it is, C06) *)
Theorem C11_acc_local : forall nrows ncols maxcells fd field nodata res,
  0 < ncols -> zlen field = nrows * ncols ->
  complete nrows ncols fd (Z.to_nat (maxcells + 1)) ->
  accumulate RR nrows ncols maxcells nodata fd field = Some res ->
  forall c d, 0 <= c < nrows * ncols -> downstream nrows ncols fd c = Some d -> 0 <= d ->
  zn res c 0%R = (zn field c 0 + Rsum (map (fun u => zn res u 0%R) (upstream_hits nrows ncols fd c)))%R.
Proof. exact acc_local. Qed.
Print Assumptions C11_acc_local.

(* cells that drain nowhere (sink -2, off-grid exit or invalid code -1) carry no-data *)
Theorem C11_acc_terminal_nodata : forall nrows ncols maxcells fd field nodata res,
  0 < ncols -> zlen field = nrows * ncols ->
  complete nrows ncols fd (Z.to_nat (maxcells + 1)) ->
  accumulate RR nrows ncols maxcells nodata fd field = Some res ->
  forall c d, 0 <= c < nrows * ncols -> downstream nrows ncols fd c = Some d -> d < 0 ->
  zn res c 0%R = nodata.
Proof. exact acc_terminal_nodata. Qed.
Print Assumptions C11_acc_terminal_nodata.

(* non-vacuity: a 2x3 grid draining east then south to a sink (cell 3 exits the grid); every walk
   completes under the default cap, cell 1 drains into cell 2 and receives cell 0 *)
Example C11_hypotheses_inhabited :
  let fd := [1; 1; 4; 2; 1; 0] in
  complete 2 3 fd (Z.to_nat (6 + 1)) /\
  downstream 2 3 fd 1 = Some 2 /\ downstream 2 3 fd 5 = Some (-2) /\
  through 2 3 fd (Z.to_nat (6 + 1)) 5 = [0; 1; 2; 4].
Proof. split; [apply complete_b_true; vm_compute; reflexivity|]. vm_compute. auto. Qed.

(* The kernel at the pinned commit added the visited cell's own value instead of
   the start cell's: on the line 1 -> 10 -> 100 flowing east the middle cell got
   20, not 1 + 10 = 11 (witness evaluated in binary64; repaired by a fix: commit) *)
Theorem C11_pinned_kernel_refuted :
  exists nrows ncols fd field a b,
    accumulate_pinned F64 nrows ncols 3 nan fd field = Some a /\
    accumulate F64 nrows ncols 3 nan fd field = Some b /\
    PrimFloat.eqb (zn a 1 0%float) 20%float = true /\
    PrimFloat.eqb (zn b 1 0%float) 11%float = true.
Proof.
  exists 1, 3, [1; 1; 1], [1%float; 10%float; 100%float].
  eexists. eexists. split; [vm_compute; reflexivity|]. split; [vm_compute; reflexivity|].
  split; vm_compute; reflexivity.
Qed.
Print Assumptions C11_pinned_kernel_refuted.

(* ================================================================== *)
(* The same property on the REGENERATED program: [program] is the MiniC  *)
(* translation of the C kernel produced from the tree under test on      *)
(* every run (Gen/KernelsAst.v); [exec_fun] its interpreter (MiniC.v).   *)
(* ================================================================== *)
From Coq Require Import String Lia.
From Hy Require Import Base.MiniC Gen.KernelsAst Proofs.RefineAccumulate Proofs.KernelAccumulate.
Open Scope string_scope.
Open Scope list_scope.
Open Scope Z_scope.

(* c_accumulate = the model, any arithmetic instance (binary64 included), any grid shape,
   any flow directions (cycles, invalid codes), any nprint (0 and negative included), any
   field content: return 0 and the model's array, or a positive code and untouched arrays
   when the model rejects (maxcells < 1 or nrows < 1) *)
Theorem C11_kernel_accumulate_refines_model :
  forall {T} (N : NumOps T) (X : NumLit T) nrows ncols nprint maxcells (nodata : T) fd field n,
  List.length fd = Z.to_nat (nrows * ncols) ->
  List.length field = Z.to_nat (nrows * ncols) ->
  (Nat.max (Nat.max (Z.to_nat (nrows * ncols)) (Z.to_nat (maxcells + 1))) 10 < n)%nat ->
  match accumulate N nrows ncols maxcells nodata fd field with
  | Some res =>
      exec_fun N X program (S n) "c_accumulate"
        [AVI nrows; AVI ncols; AVI nprint; AVI maxcells; AVF nodata; AVArrI FLOWDIRCODE;
         AVArrI fd; AVArrF field; AVArrF field]
      = Ok (RI 0, [VArrI FLOWDIRCODE; VArrI fd; VArrF field; VArrF res])
  | None =>
      exists code, 0 < code /\
      exec_fun N X program (S n) "c_accumulate"
        [AVI nrows; AVI ncols; AVI nprint; AVI maxcells; AVF nodata; AVArrI FLOWDIRCODE;
         AVArrI fd; AVArrF field; AVArrF field]
      = Ok (RI code, [VArrI FLOWDIRCODE; VArrI fd; VArrF field; VArrF field])
  end.
Proof. exact @refine_accumulate. Qed.
Print Assumptions C11_kernel_accumulate_refines_model.

(* the local law and the no-data law hold of what the translated kernel returns, on any
   grid without cycles; the input arrays come back unchanged *)
Theorem C11_kernel_accumulate_laws :
  forall nrows ncols nprint maxcells (nodata : R) fd field n,
  0 < ncols -> 1 <= nrows -> 1 <= maxcells -> nrows * ncols <= maxcells ->
  acyclic nrows ncols fd ->
  List.length fd = Z.to_nat (nrows * ncols) -> List.length field = Z.to_nat (nrows * ncols) ->
  (Nat.max (Nat.max (Z.to_nat (nrows * ncols)) (Z.to_nat (maxcells + 1))) 10 < n)%nat ->
  exists res,
    run_accumulate n nrows ncols nprint maxcells nodata fd field
      = Ok (RI 0, [VArrI FLOWDIRCODE; VArrI fd; VArrF field; VArrF res]) /\
    (forall c d, 0 <= c < nrows * ncols -> downstream nrows ncols fd c = Some d -> 0 <= d ->
       zn res c 0%R = (zn field c 0 + Rsum (map (fun u => zn res u 0%R) (upstream_hits nrows ncols fd c)))%R) /\
    (forall c d, 0 <= c < nrows * ncols -> downstream nrows ncols fd c = Some d -> d < 0 ->
       zn res c 0%R = nodata).
Proof. exact kernel_accumulate_laws. Qed.
Print Assumptions C11_kernel_accumulate_laws.
