(* C16 - catchment/grid intersection weights and Voronoi weights conserve area.
   Statements only; proofs are `exact <lemma>` from Proofs/IntersectProofs.v,
   Proofs/IntersectGridProofs.v, Proofs/VoronoiProofs.v, Proofs/IntersectExtraProofs.v (examples in
   Proofs/IntersectExamples.v).  Models: Model/Intersect.v (c_intersect,
   Catchment.intersect, c_voronoi) over the grid geometry of Model/Grid.v.
   VORONOI_DISTMAX_R is re-extracted from the source (Gen/ConstsC16.v). *)
From Coq Require Import ZArith Bool List Reals Permutation.
From Hy Require Import Base.Num Gen.Consts Gen.ConstsC16 Model.Grid Model.Intersect
     Proofs.GridGeomProofs Proofs.IntersectProofs Proofs.IntersectGridProofs
     Proofs.VoronoiProofs Proofs.IntersectExtraProofs Proofs.IntersectExamples.
Import ListNotations.
Open Scope R_scope.

(* ================= the accumulation loop of c_intersect ================= *)

(* each grid cell appears once - for every arithmetic (binary64 included),
   every way of locating points, every list of points *)
Theorem C16_each_grid_cell_listed_once : forall {T} (N : NumOps T) locate af xys,
  NoDup (map fst (intersect_with N locate af xys)).
Proof. exact @intersect_nodup. Qed.
Print Assumptions C16_each_grid_cell_listed_once.

(* a cell is listed iff some point is located in it; its weight is the area
   factor added once per such point (for every arithmetic) *)
Theorem C16_entry_iff_located : forall {T} (N : NumOps T) locate af xys k w,
  In (k, w) (intersect_with N locate af xys) <->
  ((0 <= k)%Z /\ (0 < cnt locate k xys)%nat /\ w = addn N af (cnt locate k xys)).
Proof. exact @intersect_in. Qed.
Print Assumptions C16_entry_iff_located.

(* cells are listed in the order in which they are first met *)
Theorem C16_cells_in_order_of_first_appearance : forall {T} (N : NumOps T) locate af xys,
  map fst (intersect_with N locate af xys) = first_seen [] (map locate xys).
Proof. exact @intersect_order. Qed.
Print Assumptions C16_cells_in_order_of_first_appearance.

(* every point located inside is assigned to exactly one listed cell: the
   per-cell counts add up to the number of points located inside *)
Theorem C16_points_partitioned_among_cells : forall {T} (N : NumOps T) locate af xys,
  fold_right Nat.add O (map (fun k => cnt locate k xys) (map fst (intersect_with N locate af xys))) =
  cnt_inside locate xys.
Proof. exact @sum_cnt_keys. Qed.
Print Assumptions C16_points_partitioned_among_cells.

(* on the reals the weight is the area factor times the number of points *)
Theorem C16_weight_is_factor_times_count : forall locate af xys k w,
  In (k, w) (intersect_with RR locate af xys) ->
  (0 <= k)%Z /\ (0 < cnt locate k xys)%nat /\ w = af * INR (cnt locate k xys).
Proof. exact intersect_weight_RR. Qed.
Print Assumptions C16_weight_is_factor_times_count.

(* ================= the kernel with the grid geometry (reals) ================= *)

(* a point is located in cell (row, col) iff it lies in the closed-open footprint
   of that cell; it is located somewhere iff it lies inside the extent *)
Theorem C16_located_iff_in_footprint : forall nrows ncols xll yll csz row col xy,
  0 < csz -> (0 <= col < ncols)%Z -> (0 <= row < nrows)%Z ->
  (coord2cell RR nrows ncols xll yll csz xy = (row * ncols + col)%Z <->
   in_footprint nrows xll yll csz row col xy).
Proof. exact coord2cell_footprint_iff. Qed.
Print Assumptions C16_located_iff_in_footprint.

Theorem C16_located_iff_inside_extent : forall nrows ncols xll yll csz xy,
  0 < csz ->
  ((0 <= coord2cell RR nrows ncols xll yll csz xy)%Z <-> in_extent nrows ncols xll yll csz xy).
Proof. exact coord2cell_inside_iff. Qed.
Print Assumptions C16_located_iff_inside_extent.

Example C16_footprint_nonvacuous : coord2cell RR 1 1 0 0 2 (1 / 2, 1 / 2) = (0 * 1 + 0)%Z.
Proof. exact footprint_iff_example. Qed.

(* ★ weight k = (csz_area/csz)^2 x #{points in the footprint of cell k} *)
Theorem C16_kernel_weight : forall nrows ncols xll yll csz csz_area xys row col w,
  0 < csz -> (0 <= col < ncols)%Z -> (0 <= row < nrows)%Z ->
  In ((row * ncols + col)%Z, w) (c_intersect RR nrows ncols xll yll csz csz_area xys) ->
  w = (csz_area / csz) * (csz_area / csz) *
      INR (countb (in_footprint_b nrows xll yll csz row col) xys).
Proof. exact c_intersect_weight. Qed.
Print Assumptions C16_kernel_weight.

Example C16_kernel_weight_nonvacuous :
  In (0 * 1 + 0)%Z (map fst (c_intersect RR 1 1 0 0 2 1 [(1 / 2, 1 / 2); (3 / 2, 1 / 2); (5, 5)])) /\
  forall w, In ((0 * 1 + 0)%Z, w) (c_intersect RR 1 1 0 0 2 1 [(1 / 2, 1 / 2); (3 / 2, 1 / 2); (5, 5)]) ->
            w = 1 / 2.
Proof. exact (conj weight_example_listed weight_example). Qed.

(* the listed cells are exactly the valid cells whose footprint holds a point *)
Theorem C16_kernel_cells : forall nrows ncols xll yll csz csz_area xys k,
  0 < csz ->
  (In k (map fst (c_intersect RR nrows ncols xll yll csz csz_area xys)) <->
   exists row col, (0 <= col < ncols)%Z /\ (0 <= row < nrows)%Z /\ k = (row * ncols + col)%Z /\
     exists xy, In xy xys /\ in_footprint nrows xll yll csz row col xy).
Proof. exact c_intersect_cells. Qed.
Print Assumptions C16_kernel_cells.

(* ★ sum(weights) x csz^2 = #{points inside the grid} x csz_area^2 *)
Theorem C16_area_conserved : forall nrows ncols xll yll csz csz_area xys,
  0 < csz ->
  Rsum (map snd (c_intersect RR nrows ncols xll yll csz csz_area xys)) * (csz * csz) =
  INR (countb (in_extent_b nrows ncols xll yll csz) xys) * (csz_area * csz_area).
Proof. exact c_intersect_area_conserved. Qed.
Print Assumptions C16_area_conserved.

Example C16_area_conserved_nonvacuous :
  Rsum (map snd (c_intersect RR 1 1 0 0 2 1 [(1 / 2, 1 / 2); (3 / 2, 1 / 2); (5, 5)])) * (2 * 2) =
  2 * (1 * 1).
Proof. exact conservation_example. Qed.

(* hence the weighted area never exceeds the catchment area, with equality when
   the grid covers every centre *)
Theorem C16_area_at_most_catchment : forall nrows ncols xll yll csz csz_area xys,
  0 < csz ->
  Rsum (map snd (c_intersect RR nrows ncols xll yll csz csz_area xys)) * (csz * csz) <=
  INR (List.length xys) * (csz_area * csz_area).
Proof. exact intersect_area_le. Qed.
Print Assumptions C16_area_at_most_catchment.

Theorem C16_area_equals_catchment_when_covered : forall nrows ncols xll yll csz csz_area xys,
  0 < csz -> (forall xy, In xy xys -> in_extent nrows ncols xll yll csz xy) ->
  Rsum (map snd (c_intersect RR nrows ncols xll yll csz csz_area xys)) * (csz * csz) =
  INR (List.length xys) * (csz_area * csz_area).
Proof. exact intersect_area_full. Qed.
Print Assumptions C16_area_equals_catchment_when_covered.

(* the (cell, weight) pairs do not depend on the order of the catchment cells *)
Theorem C16_weights_independent_of_cell_order : forall locate af xys xys' k w,
  Permutation xys xys' ->
  (In (k, w) (intersect_with RR locate af xys) <-> In (k, w) (intersect_with RR locate af xys')).
Proof. exact intersect_perm_RR. Qed.
Print Assumptions C16_weights_independent_of_cell_order.

(* the kernel of the pinned commit (coord2cell truncating toward zero) does not
   conserve area: a centre left of the extent is counted.  Repaired in /repo
   by the fix: commit of C07 (floor); [c_intersect] above is the repaired code. *)
Theorem C16_area_conserved_trunc_refuted :
  exists nrows ncols xll yll csz csz_area xys,
    0 < csz /\
    Rsum (map snd (c_intersect_trunc RR nrows ncols xll yll csz csz_area xys)) * (csz * csz) <>
    INR (countb (in_extent_b nrows ncols xll yll csz) xys) * (csz_area * csz_area).
Proof. exact c_intersect_trunc_area_refuted. Qed.
Print Assumptions C16_area_conserved_trunc_refuted.

(* the list of cells never exceeds the nrows*ncols buffer allocated by grid.py *)
Theorem C16_result_fits_buffer : forall {T} (N : NumOps T) nrows ncols xll yll csz csz_area xys,
  (Z.of_nat (List.length (c_intersect N nrows ncols xll yll csz csz_area xys)) <= Z.max 0 (nrows * ncols))%Z.
Proof. exact @c_intersect_fits_buffer. Qed.
Print Assumptions C16_result_fits_buffer.

(* ================= Catchment.intersect (Python layer) ================= *)

(* ★ the weight grid: cells listed once, all valid; parent rows/columns are the
   bounding box of the listed cells (attained on every side); weight k sits at
   (row_k - row_start, col_k - col_start) and every other slot holds zero.
   For every arithmetic. *)
Theorem C16_weight_grid : forall {T} (N : NumOps T) nr_a nc_a xll_a yll_a csz_a filled cells cells_filled
    nrows ncols xll yll csz r,
  (0 < ncols)%Z ->
  intersect_py N nr_a nc_a xll_a yll_a csz_a filled cells cells_filled nrows ncols xll yll csz = Some r ->
  let rowof k := fst (cell2rowcol nrows ncols k) in
  let colof k := snd (cell2rowcol nrows ncols k) in
  NoDup (ir_idx r) /\ List.length (ir_idx r) = List.length (ir_w r) /\
  (forall k, In k (ir_idx r) -> (0 <= k < nrows * ncols)%Z) /\
  ir_nrows r = (ir_row_end r - ir_row_start r + 1)%Z /\ ir_ncols r = (ir_col_end r - ir_col_start r + 1)%Z /\
  Z.of_nat (List.length (ir_data r)) = (ir_nrows r * ir_ncols r)%Z /\
  (exists k, In k (ir_idx r) /\ rowof k = ir_row_start r) /\
  (exists k, In k (ir_idx r) /\ rowof k = ir_row_end r) /\
  (exists k, In k (ir_idx r) /\ colof k = ir_col_start r) /\
  (exists k, In k (ir_idx r) /\ colof k = ir_col_end r) /\
  (forall k w, In (k, w) (combine (ir_idx r) (ir_w r)) ->
     (0 <= rowof k - ir_row_start r < ir_nrows r)%Z /\ (0 <= colof k - ir_col_start r < ir_ncols r)%Z /\
     zn (ir_data r) ((rowof k - ir_row_start r) * ir_ncols r + (colof k - ir_col_start r))%Z (n0 N) = w) /\
  (forall i j, (0 <= i < ir_nrows r)%Z -> (0 <= j < ir_ncols r)%Z ->
     (forall k, In k (ir_idx r) -> (rowof k, colof k) <> (ir_row_start r + i, ir_col_start r + j)%Z) ->
     zn (ir_data r) (i * ir_ncols r + j)%Z (n0 N) = n0 N).
Proof. exact @intersect_py_weight_grid. Qed.
Print Assumptions C16_weight_grid.

(* ★ with the centres of the (filled) area cells: each weight is the ratio of
   cell areas times the number of area cells whose centre lies in the grid
   cell; every grid cell holding a centre is listed; the weights times the
   grid-cell area sum to the catchment area inside the grid *)
Theorem C16_intersect_weights : forall nr_a nc_a xll_a yll_a csz_a filled cells cells_filled
    nrows ncols xll yll csz,
  0 < csz -> forall r,
  intersect_py RR nr_a nc_a xll_a yll_a csz_a filled cells cells_filled nrows ncols xll yll csz = Some r ->
  let cs := if filled then cells_filled else cells in
  let centre c := cell2coord RR nr_a nc_a xll_a yll_a csz_a c in
  (forall k w, In (k, w) (combine (ir_idx r) (ir_w r)) ->
     exists row col, (0 <= col < ncols)%Z /\ (0 <= row < nrows)%Z /\ k = (row * ncols + col)%Z /\
       (0 < countb (fun c => in_footprint_b nrows xll yll csz row col (centre c)) cs)%nat /\
       w = (csz_a / csz) * (csz_a / csz) *
           INR (countb (fun c => in_footprint_b nrows xll yll csz row col (centre c)) cs)) /\
  (forall row col, (0 <= col < ncols)%Z -> (0 <= row < nrows)%Z ->
     (exists c, In c cs /\ in_footprint nrows xll yll csz row col (centre c)) ->
     In (row * ncols + col)%Z (ir_idx r)) /\
  Rsum (ir_w r) * (csz * csz) =
    INR (countb (fun c => in_extent_b nrows ncols xll yll csz (centre c)) cs) * (csz_a * csz_a).
Proof. exact intersect_py_weights. Qed.
Print Assumptions C16_intersect_weights.

(* the centre used for a valid area cell is the centre of C07 *)
Theorem C16_area_cell_centre : forall nrows ncols xll yll csz row col,
  (0 <= col < ncols)%Z -> (0 <= row < nrows)%Z ->
  cell2coord RR nrows ncols xll yll csz (row * ncols + col) =
  (xll + csz * (IZR col + / 2), yll + csz * (IZR (nrows - 1 - row) + / 2)).
Proof. exact cell2coord_centre. Qed.
Print Assumptions C16_area_cell_centre.

Example C16_intersect_nonvacuous :
  exists r, intersect_py RR 2 2 0 0 1 false [0; 1; 2; 3]%Z [] 1 1 0 0 2 = Some r.
Proof. exact intersect_py_example. Qed.

(* the error path (ValueError): exactly when no centre lies inside the grid *)
Theorem C16_intersect_error_iff_no_centre_inside : forall nr_a nc_a xll_a yll_a csz_a filled cells cells_filled
    nrows ncols xll yll csz,
  0 < csz ->
  (intersect_py RR nr_a nc_a xll_a yll_a csz_a filled cells cells_filled nrows ncols xll yll csz = None <->
   forall c, In c (if filled then cells_filled else cells) ->
     ~ in_extent nrows ncols xll yll csz (cell2coord RR nr_a nc_a xll_a yll_a csz_a c)).
Proof. exact intersect_py_none_RR. Qed.
Print Assumptions C16_intersect_error_iff_no_centre_inside.

Example C16_intersect_error_nonvacuous :
  intersect_py RR 2 2 (-10) 0 1 false [0; 3]%Z [] 1 1 0 0 2 = None.
Proof. exact intersect_py_error_example. Qed.

(* ☆ the weight grid is a window of the parent grid: its lower-left corner lies
   on the parent's lattice and its cells have the centres of the parent cells *)
Theorem C16_weight_grid_corner : forall nrows ncols xll yll csz (acc : list (Z * R)),
  0 < csz -> (0 < ncols)%Z -> acc <> [] -> NoDup (map fst acc) ->
  (forall k, In k (map fst acc) -> (0 <= k < nrows * ncols)%Z) ->
  let r := ires_of_acc RR nrows ncols xll yll csz acc in
  ir_xll r = xll + csz * IZR (ir_col_start r) /\
  ir_yll r = yll + csz * IZR (nrows - 1 - ir_row_end r).
Proof. exact weight_grid_corner. Qed.
Print Assumptions C16_weight_grid_corner.

Theorem C16_weight_grid_centres : forall nrows ncols xll yll csz (acc : list (Z * R)),
  0 < csz -> (0 < ncols)%Z -> acc <> [] -> NoDup (map fst acc) ->
  (forall k, In k (map fst acc) -> (0 <= k < nrows * ncols)%Z) ->
  let r := ires_of_acc RR nrows ncols xll yll csz acc in
  forall i j, (0 <= i < ir_nrows r)%Z -> (0 <= j < ir_ncols r)%Z ->
  cell2coord RR (ir_nrows r) (ir_ncols r) (ir_xll r) (ir_yll r) csz (i * ir_ncols r + j) =
  cell2coord RR nrows ncols xll yll csz ((ir_row_start r + i) * ncols + (ir_col_start r + j)).
Proof. exact weight_grid_centres. Qed.
Print Assumptions C16_weight_grid_centres.

(* ================= Voronoi weights ================= *)

(* the point chosen for a cell is always one of the points - for every
   arithmetic, every initial distmin (binary64 with NaN/inf distances included) *)
Theorem C16_voronoi_choice_in_range : forall {T} (N : NumOps T) distmax xy pts,
  pts <> [] -> (0 <= nearest N distmax xy pts < Z.of_nat (List.length pts))%Z.
Proof. exact @nearest_in_range_any. Qed.
Print Assumptions C16_voronoi_choice_in_range.

(* ★ it is the nearest point, the lowest index among equidistant ones - provided
   some point is closer than the initial `distmin` (1e30) of the kernel *)
Theorem C16_voronoi_choice_is_nearest_lowest_index : forall xy pts i,
  (exists i0, (i0 < List.length pts)%nat /\ dist RR xy (nth i0 pts p0) < VORONOI_DISTMAX_R) ->
  (nearest RR VORONOI_DISTMAX_R xy pts = Z.of_nat i <-> lowest_nearest xy pts i).
Proof. exact (nearest_is_lowest_nearest VORONOI_DISTMAX_R). Qed.
Print Assumptions C16_voronoi_choice_is_nearest_lowest_index.

Example C16_voronoi_tie_nonvacuous :
  nearest RR VORONOI_DISTMAX_R (0, 0) [(1, 0); (-1, 0); (2, 0)] = Z.of_nat 0.
Proof. exact voronoi_tie_example. Qed.

(* when every point is at least 1e30 away the cell goes to point 0 *)
Theorem C16_voronoi_all_points_beyond_distmax : forall xy pts,
  (forall i, (i < List.length pts)%nat -> VORONOI_DISTMAX_R <= dist RR xy (nth i pts p0)) ->
  nearest RR VORONOI_DISTMAX_R xy pts = 0%Z.
Proof. exact (nearest_all_far VORONOI_DISTMAX_R). Qed.
Print Assumptions C16_voronoi_all_points_beyond_distmax.

(* ★ weight j = fraction of the catchment cells whose chosen point is j *)
Theorem C16_voronoi_weight_is_fraction : forall nrows ncols xll yll csz cells pts,
  pts <> [] -> forall q, (0 <= q < Z.of_nat (List.length pts))%Z ->
  zn (voronoi RR VORONOI_DISTMAX_R nrows ncols xll yll csz cells pts) q 0 =
  INR (countb (fun c => (nearest RR VORONOI_DISTMAX_R (getcoord RR nrows ncols xll yll csz c) pts =? q)%Z) cells)
  / INR (List.length cells).
Proof. exact (voronoi_weight VORONOI_DISTMAX_R). Qed.
Print Assumptions C16_voronoi_weight_is_fraction.

Theorem C16_voronoi_one_weight_per_point : forall nrows ncols xll yll csz cells pts,
  pts <> [] ->
  List.length (voronoi RR VORONOI_DISTMAX_R nrows ncols xll yll csz cells pts) = List.length pts.
Proof. exact (voronoi_length VORONOI_DISTMAX_R). Qed.
Print Assumptions C16_voronoi_one_weight_per_point.

(* ★ non-negative, and summing to 1 for a non-empty catchment *)
Theorem C16_voronoi_nonneg : forall nrows ncols xll yll csz cells pts,
  pts <> [] -> forall w, cells <> [] ->
  In w (voronoi RR VORONOI_DISTMAX_R nrows ncols xll yll csz cells pts) -> 0 <= w.
Proof. exact (voronoi_nonneg VORONOI_DISTMAX_R). Qed.
Print Assumptions C16_voronoi_nonneg.

Theorem C16_voronoi_sum_one : forall nrows ncols xll yll csz cells pts,
  pts <> [] -> cells <> [] ->
  Rsum (voronoi RR VORONOI_DISTMAX_R nrows ncols xll yll csz cells pts) = 1.
Proof. exact (voronoi_sum_one VORONOI_DISTMAX_R). Qed.
Print Assumptions C16_voronoi_sum_one.

Example C16_voronoi_sum_nonvacuous :
  Rsum (voronoi RR VORONOI_DISTMAX_R 2 2 0 0 1 [0; 1; 2]%Z [(1 / 2, 3 / 2); (3, 3)]) = 1.
Proof. exact voronoi_sum_example. Qed.

(* each weight is at most 1; one point takes the whole catchment; the weights
   do not depend on the order of the catchment cells *)
Theorem C16_voronoi_le_one : forall nrows ncols xll yll csz cells pts q,
  pts <> [] -> cells <> [] -> (0 <= q < Z.of_nat (List.length pts))%Z ->
  zn (voronoi RR VORONOI_DISTMAX_R nrows ncols xll yll csz cells pts) q 0 <= 1.
Proof. exact (voronoi_le_one VORONOI_DISTMAX_R). Qed.
Print Assumptions C16_voronoi_le_one.

Theorem C16_voronoi_single_point : forall nrows ncols xll yll csz cells p,
  cells <> [] -> voronoi RR VORONOI_DISTMAX_R nrows ncols xll yll csz cells [p] = [1].
Proof. exact (voronoi_single_point VORONOI_DISTMAX_R). Qed.
Print Assumptions C16_voronoi_single_point.

Theorem C16_voronoi_independent_of_cell_order : forall nrows ncols xll yll csz cells cells' pts q,
  pts <> [] -> (0 <= q < Z.of_nat (List.length pts))%Z -> Permutation cells cells' ->
  zn (voronoi RR VORONOI_DISTMAX_R nrows ncols xll yll csz cells pts) q 0 =
  zn (voronoi RR VORONOI_DISTMAX_R nrows ncols xll yll csz cells' pts) q 0.
Proof. exact (voronoi_perm VORONOI_DISTMAX_R). Qed.
Print Assumptions C16_voronoi_independent_of_cell_order.

(* the point compared with the Voronoi points is the centre of the cell *)
Theorem C16_voronoi_uses_cell_centre : forall nrows ncols xll yll csz row col,
  (0 <= col < ncols)%Z -> (0 <= row < nrows)%Z ->
  getcoord RR nrows ncols xll yll csz (row * ncols + col) =
  (xll + csz * (IZR col + / 2), yll + csz * (IZR (nrows - 1 - row) + / 2)).
Proof. exact getcoord_centre. Qed.
Print Assumptions C16_voronoi_uses_cell_centre.

(* ================================================================== *)
(* Intersection and Voronoi weights on the REGENERATED program (MiniC *)
(* translation of c_intersect / c_voronoi, c_grid.c, Gen/KernelsAst.v). *)
(* ================================================================== *)
From Coq Require Import String Lia PrimFloat.
From Hy Require Import Base.Num Base.MiniC Gen.KernelsAst Gen.Consts Gen.ConstsC16 Model.Grid Model.Intersect.
From Hy Require Proofs.RefineIntersect.
Import ListNotations.
Open Scope string_scope.
Open Scope list_scope.
Open Scope Z_scope.

(* c_intersect over the reals = the model [c_intersect]: any grid of at most 2^63-1 rows / columns, any cell sizes (0 included), any points, buffers of max(0, nrows*ncols) entries as grid.py allocates (pigeonhole: the unguarded store never leaves them); the count, the cells and the weights are written in front of the untouched rest *)
Theorem C16_kernel_intersect_refines_model :
  forall (nrows ncols : Z) (xll yll csz csz_area : R) (xys : list (R * R)) 
         (np0 : Z) (idx0 : list Z) (w0 : list R) (n : nat),
       nrows <= RefineIntersect.MAXLL ->
       ncols <= RefineIntersect.MAXLL ->
       Datatypes.length w0 = Datatypes.length idx0 ->
       Z.max 0 (nrows * ncols) <= Z.of_nat (Datatypes.length idx0) ->
       (Datatypes.length xys + 2 < n)%nat ->
       exec_fun RR XRR program (S n) "c_intersect"
         [AVI nrows; AVI ncols; AVF xll; AVF yll; AVF csz; AVF csz_area; 
          AVI (zlen xys); AVArrF (RefineIntersect.flat2 xys); AVI (zlen idx0); 
          AVArrI [np0]; AVArrI idx0; AVArrF w0] =
       Ok
         (RI 0,
          let acc := c_intersect RR nrows ncols xll yll csz csz_area xys in
          [VArrF (RefineIntersect.flat2 xys); VArrI [zlen acc];
           VArrI (map fst acc ++ skipn (Datatypes.length acc) idx0);
           VArrF (map snd acc ++ skipn (Datatypes.length acc) w0)]).
Proof. exact @RefineIntersect.refine_intersect_RR. Qed.
Print Assumptions C16_kernel_intersect_refines_model.

(* the same over the reals with NaN (NaN coordinates or cell sizes) *)
Theorem C16_kernel_intersect_refines_model_with_nan :
  forall (nrows ncols : Z) (xll yll csz csz_area : option R)
         (xys : list (option R * option R)) (np0 : Z) (idx0 : list Z) (w0 : list (option R))
         (n : nat),
       nrows <= RefineIntersect.MAXLL ->
       ncols <= RefineIntersect.MAXLL ->
       Datatypes.length w0 = Datatypes.length idx0 ->
       Z.max 0 (nrows * ncols) <= Z.of_nat (Datatypes.length idx0) ->
       (Datatypes.length xys + 2 < n)%nat ->
       exec_fun RN XRN program (S n) "c_intersect"
         [AVI nrows; AVI ncols; AVF xll; AVF yll; AVF csz; AVF csz_area; 
          AVI (zlen xys); AVArrF (RefineIntersect.flat2 xys); AVI (zlen idx0); 
          AVArrI [np0]; AVArrI idx0; AVArrF w0] =
       Ok
         (RI 0,
          let acc := c_intersect RN nrows ncols xll yll csz csz_area xys in
          [VArrF (RefineIntersect.flat2 xys); VArrI [zlen acc];
           VArrI (map fst acc ++ skipn (Datatypes.length acc) idx0);
           VArrF (map snd acc ++ skipn (Datatypes.length acc) w0)]).
Proof. exact @RefineIntersect.refine_intersect_RN. Qed.
Print Assumptions C16_kernel_intersect_refines_model_with_nan.

(* c_voronoi over the reals: a positive code and untouched weights without points / on an empty grid; the model's weights when every catchment cell is valid; a positive code at the first invalid cell, the weights then holding the (not yet normalised) counts of the cells before it *)
Theorem C16_kernel_voronoi_refines_model :
  forall (nrows ncols : Z) (xll yll csz : R) (cells : list Z) (pts : list (R * R))
         (w0 : list R) (n : nat),
       Datatypes.length w0 = Datatypes.length pts ->
       (Nat.max (Datatypes.length cells) (Datatypes.length pts) + 1 < n)%nat ->
       let run :=
         exec_fun RR XRR program (S n) "c_voronoi"
           [AVI nrows; AVI ncols; AVF xll; AVF yll; AVF csz; AVI (zlen cells); 
            AVArrI cells; AVI (zlen pts); AVArrF (RefineIntersect.flat2 pts); 
            AVArrF w0] in
       if (zlen pts <? 1) || ((nrows <? 1) || (ncols <? 1))
       then
        exists code : Z,
          0 < code /\
          run = Ok (RI code, [VArrI cells; VArrF (RefineIntersect.flat2 pts); VArrF w0])
       else
        if forallb (valid_cell nrows ncols) cells
        then
         run =
         Ok
           (RI 0,
            [VArrI cells; VArrF (RefineIntersect.flat2 pts);
             VArrF (voronoi RR VORONOI_DISTMAX_R nrows ncols xll yll csz cells pts)])
        else
         exists (code : Z) (pre : list Z) (bad : Z) (post : list Z),
           0 < code /\
           cells = pre ++ bad :: post /\
           forallb (valid_cell nrows ncols) pre = true /\
           valid_cell nrows ncols bad = false /\
           run =
           Ok
             (RI code,
              [VArrI cells; VArrF (RefineIntersect.flat2 pts);
               VArrF (voronoi_counts RR VORONOI_DISTMAX_R nrows ncols xll yll csz pre pts)]).
Proof. exact @RefineIntersect.refine_voronoi_RR. Qed.
Print Assumptions C16_kernel_voronoi_refines_model.

(* generic over the arithmetic under the floor / conversion laws (FloorLaws) with the weakest buffer hypothesis: the model's list fits the buffers *)
Theorem C16_kernel_intersect_generic :
  forall (T : Type) (N : NumOps T) (X : NumLit T) (B : Z) (flo : T -> T) 
         (nrows ncols : Z) (xll yll csz csz_area : T) (xys : list (T * T)) 
         (np0 : Z) (idx0 : list Z) (w0 : list T) (n : nat),
       RefineIntersect.FloorLaws N X B flo ->
       nrows <= B ->
       ncols <= B ->
       Datatypes.length w0 = Datatypes.length idx0 ->
       (Datatypes.length (c_intersect N nrows ncols xll yll csz csz_area xys) <=
        Datatypes.length idx0)%nat ->
       (Datatypes.length xys + 2 < n)%nat ->
       exec_fun N X program (S n) "c_intersect"
         [AVI nrows; AVI ncols; AVF xll; AVF yll; AVF csz; AVF csz_area; 
          AVI (zlen xys); AVArrF (RefineIntersect.flat2 xys); AVI (zlen idx0); 
          AVArrI [np0]; AVArrI idx0; AVArrF w0] =
       Ok
         (RI 0,
          let acc := c_intersect N nrows ncols xll yll csz csz_area xys in
          [VArrF (RefineIntersect.flat2 xys); VArrI [zlen acc];
           VArrI (map fst acc ++ skipn (Datatypes.length acc) idx0);
           VArrF (map snd acc ++ skipn (Datatypes.length acc) w0)]).
Proof. exact @RefineIntersect.refine_intersect. Qed.
Print Assumptions C16_kernel_intersect_generic.

(* with shorter buffers the kernel writes outside them (the Cython wrapper accepts any length; grid.py always allocates nrows*ncols): binary64 witness *)
Theorem C16_kernel_intersect_short_buffer_unsafe :
  exec_fun F64 XF64 program 10 "c_intersect"
         [AVI 1; AVI 1; AVF 0%float; AVF 0%float; AVF 1%float; AVF 1%float; 
          AVI 1; AVArrF [0.5%float; 0.5%float]; AVI 0; AVArrI [0]; AVArrI []; 
          AVArrF []] = Err (OOB "idxcells" 0).
Proof. exact @RefineIntersect.intersect_short_buffer_oob. Qed.
Print Assumptions C16_kernel_intersect_short_buffer_unsafe.

(* ================================================================== *)
(* C16 ITSELF on the regenerated program: the property theorems above *)
(* transported to exec_fun RR XRR program "c_intersect" / "c_voronoi" *)
(* (Proofs/KernelIntersect.v).                                        *)
(* ================================================================== *)
From Coq Require Import String Lia PrimFloat.
From Hy Require Import Base.Num Base.MiniC Gen.KernelsAst Gen.Consts Gen.ConstsC16 Model.Grid Model.Intersect.
From Hy Require Proofs.KernelIntersect.
Import ListNotations.
Open Scope string_scope.
Open Scope list_scope.
Open Scope Z_scope.

(* run_intersect = the execution of the translated c_intersect *)
Theorem C16_kernel_run_intersect :
  forall (n : nat) (nrows ncols : Z) (xll yll csz csz_area : R) (xys : list (R * R)) 
         (np0 : Z) (idx0 : list Z) (w0 : list R),
       KernelIntersect.run_intersect n nrows ncols xll yll csz csz_area xys np0 idx0 w0 =
       exec_fun RR XRR program (S n) "c_intersect"
         [AVI nrows; AVI ncols; AVF xll; AVF yll; AVF csz; AVF csz_area; 
          AVI (zlen xys); AVArrF (RefineIntersect.flat2 xys); AVI (zlen idx0); 
          AVArrI [np0]; AVArrI idx0; AVArrF w0].
Proof. exact @KernelIntersect.run_intersect_is_exec. Qed.
Print Assumptions C16_kernel_run_intersect.

(* run_voronoi = the execution of the translated c_voronoi *)
Theorem C16_kernel_run_voronoi :
  forall (n : nat) (nrows ncols : Z) (xll yll csz : R) (cells : list Z) 
         (pts : list (R * R)) (w0 : list R),
       KernelIntersect.run_voronoi n nrows ncols xll yll csz cells pts w0 =
       exec_fun RR XRR program (S n) "c_voronoi"
         [AVI nrows; AVI ncols; AVF xll; AVF yll; AVF csz; AVI (zlen cells); 
          AVArrI cells; AVI (zlen pts); AVArrF (RefineIntersect.flat2 pts); 
          AVArrF w0].
Proof. exact @KernelIntersect.run_voronoi_is_exec. Qed.
Print Assumptions C16_kernel_run_voronoi.

(* csz > 0, buffers of nrows*ncols entries: the cells written by the translated c_intersect are pairwise distinct and are exactly the valid cells whose footprint holds a point; weight = (csz_area/csz)^2 x number of points in the footprint; the per-cell counts add up to the number of points inside the grid; sum(weights) x csz^2 = that number x csz_area^2 *)
Theorem C16_kernel_intersect_weights :
  forall (nrows ncols : Z) (xll yll csz csz_area : R) (xys : list (R * R)) 
         (np0 : Z) (idx0 : list Z) (w0 : list R) (n : nat),
       (0 < csz)%R ->
       nrows <= RefineIntersect.MAXLL ->
       ncols <= RefineIntersect.MAXLL ->
       Datatypes.length w0 = Datatypes.length idx0 ->
       Z.max 0 (nrows * ncols) <= Z.of_nat (Datatypes.length idx0) ->
       (Datatypes.length xys + 2 < n)%nat ->
       exists (cells : list Z) (ws : list R),
         KernelIntersect.run_intersect n nrows ncols xll yll csz csz_area xys np0 idx0 w0 =
         Ok
           (RI 0,
            [VArrF (RefineIntersect.flat2 xys); VArrI [Z.of_nat (Datatypes.length cells)];
             VArrI (cells ++ skipn (Datatypes.length cells) idx0);
             VArrF (ws ++ skipn (Datatypes.length cells) w0)]) /\
         Datatypes.length ws = Datatypes.length cells /\
         (Datatypes.length cells <= Datatypes.length idx0)%nat /\
         NoDup cells /\
         (forall k : Z,
          In k cells <->
          (exists row col : Z,
             0 <= col < ncols /\
             0 <= row < nrows /\
             k = row * ncols + col /\
             (exists xy : R * R,
                In xy xys /\ IntersectProofs.in_footprint nrows xll yll csz row col xy))) /\
         (forall (row col : Z) (w : R),
          0 <= col < ncols ->
          0 <= row < nrows ->
          In (row * ncols + col, w) (combine cells ws) ->
          (0 <
           IntersectProofs.countb (IntersectProofs.in_footprint_b nrows xll yll csz row col) xys)%nat /\
          w =
          (csz_area / csz * (csz_area / csz) *
           INR
             (IntersectProofs.countb (IntersectProofs.in_footprint_b nrows xll yll csz row col) xys))%R) /\
         fold_right Nat.add 0%nat
           (map
              (fun k : Z =>
               IntersectProofs.countb
                 (fun xy : R * R => coord2cell RR nrows ncols xll yll csz xy =? k) xys) cells) =
         IntersectProofs.countb (IntersectProofs.in_extent_b nrows ncols xll yll csz) xys /\
         (IntersectProofs.Rsum ws * (csz * csz))%R =
         (INR (IntersectProofs.countb (IntersectProofs.in_extent_b nrows ncols xll yll csz) xys) *
          (csz_area * csz_area))%R.
Proof. exact @KernelIntersect.kernel_intersect_weights. Qed.
Print Assumptions C16_kernel_intersect_weights.

(* the weighted area never exceeds the catchment area, with equality when the grid covers every centre *)
Theorem C16_kernel_intersect_area_bounds :
  forall (nrows ncols : Z) (xll yll csz csz_area : R) (xys : list (R * R)) 
         (np0 : Z) (idx0 : list Z) (w0 : list R) (n : nat),
       (0 < csz)%R ->
       nrows <= RefineIntersect.MAXLL ->
       ncols <= RefineIntersect.MAXLL ->
       Datatypes.length w0 = Datatypes.length idx0 ->
       Z.max 0 (nrows * ncols) <= Z.of_nat (Datatypes.length idx0) ->
       (Datatypes.length xys + 2 < n)%nat ->
       exists (cells : list Z) (ws : list R),
         KernelIntersect.run_intersect n nrows ncols xll yll csz csz_area xys np0 idx0 w0 =
         Ok
           (RI 0,
            [VArrF (RefineIntersect.flat2 xys); VArrI [Z.of_nat (Datatypes.length cells)];
             VArrI (cells ++ skipn (Datatypes.length cells) idx0);
             VArrF (ws ++ skipn (Datatypes.length cells) w0)]) /\
         (IntersectProofs.Rsum ws * (csz * csz) <=
          INR (Datatypes.length xys) * (csz_area * csz_area))%R /\
         ((forall xy : R * R, In xy xys -> IntersectProofs.in_extent nrows ncols xll yll csz xy) ->
          (IntersectProofs.Rsum ws * (csz * csz))%R =
          (INR (Datatypes.length xys) * (csz_area * csz_area))%R).
Proof. exact @KernelIntersect.kernel_intersect_area_bounds. Qed.
Print Assumptions C16_kernel_intersect_area_bounds.

(* valid catchment cells, >= 1 point: the translated c_voronoi returns one weight per point = fraction of the cells nearest to it; weights in [0,1] summing to 1 *)
Theorem C16_kernel_voronoi_weights :
  forall (nrows ncols : Z) (xll yll csz : R) (cells : list Z) (pts : list (R * R))
         (w0 : list R) (n : nat),
       pts <> [] ->
       cells <> [] ->
       1 <= nrows ->
       1 <= ncols ->
       (forall c : Z, In c cells -> 0 <= c < nrows * ncols) ->
       Datatypes.length w0 = Datatypes.length pts ->
       (Nat.max (Datatypes.length cells) (Datatypes.length pts) + 1 < n)%nat ->
       exists ws : list R,
         KernelIntersect.run_voronoi n nrows ncols xll yll csz cells pts w0 =
         Ok (RI 0, [VArrI cells; VArrF (RefineIntersect.flat2 pts); VArrF ws]) /\
         Datatypes.length ws = Datatypes.length pts /\
         (forall q : Z,
          0 <= q < Z.of_nat (Datatypes.length pts) ->
          zn ws q 0%R =
          (INR
             (IntersectProofs.countb
                (fun c : Z =>
                 nearest RR VORONOI_DISTMAX_R (getcoord RR nrows ncols xll yll csz c) pts =? q)
                cells) / INR (Datatypes.length cells))%R) /\
         (forall w : R, In w ws -> (0 <= w)%R) /\
         (forall q : Z, 0 <= q < Z.of_nat (Datatypes.length pts) -> (zn ws q 0 <= 1)%R) /\
         IntersectProofs.Rsum ws = 1%R.
Proof. exact @KernelIntersect.kernel_voronoi_weights. Qed.
Print Assumptions C16_kernel_voronoi_weights.

(* no point, an empty grid or an invalid catchment cell: positive return code *)
Theorem C16_kernel_voronoi_rejects :
  forall (nrows ncols : Z) (xll yll csz : R) (cells : list Z) (pts : list (R * R))
         (w0 : list R) (n : nat),
       Datatypes.length w0 = Datatypes.length pts ->
       (Nat.max (Datatypes.length cells) (Datatypes.length pts) + 1 < n)%nat ->
       pts = [] \/ nrows < 1 \/ ncols < 1 \/ (exists c : Z, In c cells /\ ~ 0 <= c < nrows * ncols) ->
       exists (code : Z) (ws : list R),
         0 < code /\
         KernelIntersect.run_voronoi n nrows ncols xll yll csz cells pts w0 =
         Ok (RI code, [VArrI cells; VArrF (RefineIntersect.flat2 pts); VArrF ws]).
Proof. exact @KernelIntersect.kernel_voronoi_rejects. Qed.
Print Assumptions C16_kernel_voronoi_rejects.

(* non-vacuity: the instance above executed on the translated kernel: one cell, weight 1/2 *)
Theorem C16_kernel_intersect_example :
  KernelIntersect.run_intersect 6 1 1 0 0 2 1
         [((1 / 2)%R, (1 / 2)%R); ((3 / 2)%R, (1 / 2)%R); (5%R, 5%R)] 0 [0] [0%R] =
       Ok
         (RI 0,
          [VArrF [(1 / 2)%R; (1 / 2)%R; (3 / 2)%R; (1 / 2)%R; 5%R; 5%R]; 
           VArrI [1]; VArrI [0]; VArrF [(1 / 2)%R]]).
Proof. exact @KernelIntersect.kernel_intersect_example. Qed.
Print Assumptions C16_kernel_intersect_example.

(* non-vacuity: three cells, two points *)
Theorem C16_kernel_voronoi_example :
  exists ws : list R,
         KernelIntersect.run_voronoi 5 2 2 0 0 1 [0; 1; 2] [((1 / 2)%R, (3 / 2)%R); (3%R, 3%R)]
           [0%R; 0%R] =
         Ok (RI 0, [VArrI [0; 1; 2]; VArrF [(1 / 2)%R; (3 / 2)%R; 3%R; 3%R]; VArrF ws]) /\
         Datatypes.length ws = 2%nat /\
         (forall w : R, In w ws -> (0 <= w)%R) /\ IntersectProofs.Rsum ws = 1%R.
Proof. exact @KernelIntersect.kernel_voronoi_example. Qed.
Print Assumptions C16_kernel_voronoi_example.
