(* C07 - grid cell numbers, rows/columns and coordinates are mutually consistent.
   Statements only; proofs are `exact <lemma of Proofs/GridGeomProofs.v>`. *)
From Coq Require Import ZArith Bool List Reals.
From Hy Require Import Base.Num Model.Grid Proofs.GridGeomProofs.
Import ListNotations.
Open Scope R_scope.

(* cells are numbered row by row from the top-left corner and cell2coord
   returns the centre of the cell *)
Theorem C07_cell2coord_centre : forall nrows ncols xll yll csz row col,
  (0 <= col < ncols)%Z -> (0 <= row < nrows)%Z ->
  cell2coord RR nrows ncols xll yll csz (row * ncols + col) =
  (xll + csz * (IZR col + / 2), yll + csz * (IZR (nrows - 1 - row) + / 2)).
Proof. exact cell2coord_centre. Qed.
Print Assumptions C07_cell2coord_centre.

(* every point of the footprint of cell c maps to c *)
Theorem C07_coord2cell_footprint : forall nrows ncols xll yll csz row col x y,
  0 < csz -> (0 <= col < ncols)%Z -> (0 <= row < nrows)%Z ->
  xll + csz * IZR col <= x < xll + csz * (IZR col + 1) ->
  yll + csz * IZR (nrows - 1 - row) <= y < yll + csz * (IZR (nrows - 1 - row) + 1) ->
  coord2cell RR nrows ncols xll yll csz (x, y) = (row * ncols + col)%Z.
Proof. exact coord2cell_footprint. Qed.
Print Assumptions C07_coord2cell_footprint.

Theorem C07_coord2cell_cell2coord : forall nrows ncols xll yll csz idx,
  0 < csz -> (0 < ncols)%Z -> (0 <= idx < nrows * ncols)%Z ->
  coord2cell RR nrows ncols xll yll csz (cell2coord RR nrows ncols xll yll csz idx) = idx.
Proof. exact coord2cell_cell2coord. Qed.
Print Assumptions C07_coord2cell_cell2coord.

(* every point outside the extent maps to -1: all four sides, hence corners *)
Theorem C07_coord2cell_outside : forall nrows ncols xll yll csz x y,
  0 < csz ->
  x < xll \/ xll + csz * IZR ncols <= x \/ y < yll \/ yll + csz * IZR nrows <= y ->
  coord2cell RR nrows ncols xll yll csz (x, y) = (-1)%Z.
Proof. exact coord2cell_outside. Qed.
Print Assumptions C07_coord2cell_outside.

Theorem C07_cell2rowcol_rowcol : forall nrows ncols row col,
  (0 <= col < ncols)%Z -> (0 <= row < nrows)%Z ->
  cell2rowcol nrows ncols (row * ncols + col) = (row, col).
Proof. exact cell2rowcol_rowcol. Qed.
Print Assumptions C07_cell2rowcol_rowcol.

Theorem C07_cell2rowcol_valid : forall nrows ncols idx,
  (0 < ncols)%Z -> (0 <= idx < nrows * ncols)%Z ->
  let (row, col) := cell2rowcol nrows ncols idx in
  (idx = row * ncols + col /\ 0 <= col < ncols /\ 0 <= row < nrows)%Z.
Proof. exact cell2rowcol_valid. Qed.
Print Assumptions C07_cell2rowcol_valid.

Theorem C07_neighbours_symmetric : forall nrows ncols c k d,
  (0 < ncols)%Z -> (0 <= c < nrows * ncols)%Z -> (0 <= k <= 8)%Z ->
  zn (neighbours_raw nrows ncols c) k (-1)%Z = d -> d <> (-1)%Z ->
  (0 <= d < nrows * ncols)%Z /\ d <> c /\
  zn (neighbours_raw nrows ncols d) (8 - k) (-1)%Z = c.
Proof. exact neighbours_symmetric. Qed.
Print Assumptions C07_neighbours_symmetric.

Theorem C07_neighbours_values : forall nrows ncols row col k,
  (0 <= col < ncols)%Z -> (0 <= row < nrows)%Z -> (0 <= k <= 8)%Z -> k <> 4%Z ->
  let (ix, iy) := zn offsets k (0, 0)%Z in
  zn (neighbours_raw nrows ncols (row * ncols + col)) k (-1)%Z =
  if ((0 <=? col + ix) && (col + ix <? ncols) && (0 <=? row + iy) && (row + iy <? nrows))%Z
  then ((row + iy) * ncols + (col + ix))%Z else (-1)%Z.
Proof. exact neighbours_values. Qed.
Print Assumptions C07_neighbours_values.

(* invalid cell numbers are flagged: (-1,-1), missing value, error *)
Theorem C07_cell2rowcol_invalid : forall nrows ncols idx,
  (idx < 0 \/ nrows * ncols <= idx)%Z -> cell2rowcol nrows ncols idx = ((-1)%Z, (-1)%Z).
Proof. exact cell2rowcol_invalid. Qed.
Print Assumptions C07_cell2rowcol_invalid.

Theorem C07_cell2coord_invalid : forall {T} (O : NumOps T) nrows ncols xll yll csz idx,
  (idx < 0 \/ nrows * ncols <= idx)%Z ->
  cell2coord O nrows ncols xll yll csz idx = (nnan O, nnan O).
Proof. exact @cell2coord_invalid. Qed.
Print Assumptions C07_cell2coord_invalid.

Theorem C07_neighbours_invalid : forall nrows ncols idx,
  (idx < 0 \/ nrows * ncols <= idx)%Z -> neighbours nrows ncols idx = None.
Proof. exact neighbours_invalid. Qed.
Print Assumptions C07_neighbours_invalid.

(* the kernel of the pinned commit (truncation toward zero) is refuted *)
Theorem C07_coord2cell_trunc_outside_refuted :
  exists nrows ncols xll yll csz x y,
    0 < csz /\ x < xll /\
    coord2cell_trunc RR nrows ncols xll yll csz (x, y) <> (-1)%Z.
Proof. exact coord2cell_trunc_outside_refuted. Qed.
Print Assumptions C07_coord2cell_trunc_outside_refuted.

Example C07_nonvacuous :
  coord2cell RR 4 3 10 20 2 (cell2coord RR 4 3 10 20 2 7) = 7%Z.
Proof. exact footprint_example. Qed.
