(* C07 - grid cell numbers, rows/columns and coordinates are mutually consistent.
   Statements only; proofs are `exact <lemma of Proofs/GridGeomProofs.v>`. *)
From Coq Require Import ZArith Bool List Reals.
From Hy Require Import Base.Num Model.Grid Proofs.GridGeomProofs.
Import ListNotations.
Open Scope R_scope.

(* cells are numbered row by row from the top-left corner and cell2coord
   returns the centre of the cell *)
Theorem C07_cell2coord_centre : forall nrows ncols xll yll csz row col,
  (0 <= col < ncols)%Z -> (0 <= row < nrows)%Z ->
  cell2coord RR nrows ncols xll yll csz (row * ncols + col) =
  (xll + csz * (IZR col + / 2), yll + csz * (IZR (nrows - 1 - row) + / 2)).
Proof. exact cell2coord_centre. Qed.
Print Assumptions C07_cell2coord_centre.

(* every point of the footprint of cell c maps to c *)
Theorem C07_coord2cell_footprint : forall nrows ncols xll yll csz row col x y,
  0 < csz -> (0 <= col < ncols)%Z -> (0 <= row < nrows)%Z ->
  xll + csz * IZR col <= x < xll + csz * (IZR col + 1) ->
  yll + csz * IZR (nrows - 1 - row) <= y < yll + csz * (IZR (nrows - 1 - row) + 1) ->
  coord2cell RR nrows ncols xll yll csz (x, y) = (row * ncols + col)%Z.
Proof. exact coord2cell_footprint. Qed.
Print Assumptions C07_coord2cell_footprint.

Theorem C07_coord2cell_cell2coord : forall nrows ncols xll yll csz idx,
  0 < csz -> (0 < ncols)%Z -> (0 <= idx < nrows * ncols)%Z ->
  coord2cell RR nrows ncols xll yll csz (cell2coord RR nrows ncols xll yll csz idx) = idx.
Proof. exact coord2cell_cell2coord. Qed.
Print Assumptions C07_coord2cell_cell2coord.

(* every point outside the extent maps to -1: all four sides, hence corners *)
Theorem C07_coord2cell_outside : forall nrows ncols xll yll csz x y,
  0 < csz ->
  x < xll \/ xll + csz * IZR ncols <= x \/ y < yll \/ yll + csz * IZR nrows <= y ->
  coord2cell RR nrows ncols xll yll csz (x, y) = (-1)%Z.
Proof. exact coord2cell_outside. Qed.
Print Assumptions C07_coord2cell_outside.

Theorem C07_cell2rowcol_rowcol : forall nrows ncols row col,
  (0 <= col < ncols)%Z -> (0 <= row < nrows)%Z ->
  cell2rowcol nrows ncols (row * ncols + col) = (row, col).
Proof. exact cell2rowcol_rowcol. Qed.
Print Assumptions C07_cell2rowcol_rowcol.

Theorem C07_cell2rowcol_valid : forall nrows ncols idx,
  (0 < ncols)%Z -> (0 <= idx < nrows * ncols)%Z ->
  let (row, col) := cell2rowcol nrows ncols idx in
  (idx = row * ncols + col /\ 0 <= col < ncols /\ 0 <= row < nrows)%Z.
Proof. exact cell2rowcol_valid. Qed.
Print Assumptions C07_cell2rowcol_valid.

Theorem C07_neighbours_symmetric : forall nrows ncols c k d,
  (0 < ncols)%Z -> (0 <= c < nrows * ncols)%Z -> (0 <= k <= 8)%Z ->
  zn (neighbours_raw nrows ncols c) k (-1)%Z = d -> d <> (-1)%Z ->
  (0 <= d < nrows * ncols)%Z /\ d <> c /\
  zn (neighbours_raw nrows ncols d) (8 - k) (-1)%Z = c.
Proof. exact neighbours_symmetric. Qed.
Print Assumptions C07_neighbours_symmetric.

Theorem C07_neighbours_values : forall nrows ncols row col k,
  (0 <= col < ncols)%Z -> (0 <= row < nrows)%Z -> (0 <= k <= 8)%Z -> k <> 4%Z ->
  let (ix, iy) := zn offsets k (0, 0)%Z in
  zn (neighbours_raw nrows ncols (row * ncols + col)) k (-1)%Z =
  if ((0 <=? col + ix) && (col + ix <? ncols) && (0 <=? row + iy) && (row + iy <? nrows))%Z
  then ((row + iy) * ncols + (col + ix))%Z else (-1)%Z.
Proof. exact neighbours_values. Qed.
Print Assumptions C07_neighbours_values.

(* invalid cell numbers are flagged: (-1,-1), missing value, error *)
Theorem C07_cell2rowcol_invalid : forall nrows ncols idx,
  (idx < 0 \/ nrows * ncols <= idx)%Z -> cell2rowcol nrows ncols idx = ((-1)%Z, (-1)%Z).
Proof. exact cell2rowcol_invalid. Qed.
Print Assumptions C07_cell2rowcol_invalid.

Theorem C07_cell2coord_invalid : forall {T} (O : NumOps T) nrows ncols xll yll csz idx,
  (idx < 0 \/ nrows * ncols <= idx)%Z ->
  cell2coord O nrows ncols xll yll csz idx = (nnan O, nnan O).
Proof. exact @cell2coord_invalid. Qed.
Print Assumptions C07_cell2coord_invalid.

Theorem C07_neighbours_invalid : forall nrows ncols idx,
  (idx < 0 \/ nrows * ncols <= idx)%Z -> neighbours nrows ncols idx = None.
Proof. exact neighbours_invalid. Qed.
Print Assumptions C07_neighbours_invalid.

(* the kernel of the pinned commit (truncation toward zero) is refuted *)
Theorem C07_coord2cell_trunc_outside_refuted :
  exists nrows ncols xll yll csz x y,
    0 < csz /\ x < xll /\
    coord2cell_trunc RR nrows ncols xll yll csz (x, y) <> (-1)%Z.
Proof. exact coord2cell_trunc_outside_refuted. Qed.
Print Assumptions C07_coord2cell_trunc_outside_refuted.

Example C07_nonvacuous :
  coord2cell RR 4 3 10 20 2 (cell2coord RR 4 3 10 20 2 7) = 7%Z.
Proof. exact footprint_example. Qed.

(* ================================================================== *)
(* The same property on the REGENERATED program: [program] is the MiniC  *)
(* translation of src/hydrodiy/gis/c_grid.c produced from the tree under *)
(* test on every run (Gen/KernelsAst.v); [exec_fun] its interpreter.     *)
(* ================================================================== *)
From Coq Require Import String Lia.
From Hy Require Import Base.MiniC Gen.KernelsAst Proofs.RefineGrid Proofs.RefineGridGeom Proofs.KernelGrid.
Open Scope string_scope.
Open Scope list_scope.
Open Scope Z_scope.

(* c_cell2rowcol = the model, for every grid shape, every list of cell numbers (valid
   or not), every initial buffer content *)
Theorem C07_kernel_cell2rowcol_refines_model :
  forall {T} (N : NumOps T) (X : NumLit T) nrows ncols idx junk n,
  List.length junk = (2 * List.length idx)%nat ->
  (List.length idx < n)%nat ->
  exec_fun N X program (S n) "c_cell2rowcol"
    [AVI nrows; AVI ncols; AVI (MiniC.zlen idx); AVArrI idx; AVArrI junk]
  = Ok (RI 0, [VArrI idx; VArrI (rc_out nrows ncols idx)]).
Proof. exact @refine_cell2rowcol. Qed.
Print Assumptions C07_kernel_cell2rowcol_refines_model.

(* c_cell2coord = the model, any arithmetic instance in which the C literal 0.5 is the
   model's 1/(1+1) (binary64, the reals, the reals with NaN): NaN pair for invalid cells *)
Theorem C07_kernel_cell2coord_refines_model :
  forall {T} (N : NumOps T) (X : NumLit T) nrows ncols (xll yll csz : T) idx junk n,
  half_law N X ->
  List.length junk = (2 * List.length idx)%nat ->
  (List.length idx < n)%nat ->
  exec_fun N X program (S n) "c_cell2coord"
    [AVI nrows; AVI ncols; AVF xll; AVF yll; AVF csz; AVI (MiniC.zlen idx); AVArrI idx; AVArrF junk]
  = Ok (RI 0, [VArrI idx; VArrF (cc_out N nrows ncols xll yll csz idx)]).
Proof. exact @refine_cell2coord. Qed.
Print Assumptions C07_kernel_cell2coord_refines_model.

Example C07_kernel_half_law_instances : half_law RR XRR /\ half_law RN XRN /\ half_law F64 XF64.
Proof. exact (conj half_law_RR (conj half_law_RN half_law_F64)). Qed.

(* c_coord2cell = the model over the reals (and the reals with NaN): every point -
   inside, outside, NaN, csz = 0 -, any grid of at most 2^63 rows / columns; the
   double -> long long conversions are never out of range *)
Theorem C07_kernel_coord2cell_refines_model :
  (forall nrows ncols (xll yll csz : R) xy junk n,
     nrows <= cmax64 -> ncols <= cmax64 ->
     List.length xy = (2 * List.length junk)%nat -> (List.length junk < n)%nat ->
     exec_fun RR XRR program (S n) "c_coord2cell"
       [AVI nrows; AVI ncols; AVF xll; AVF yll; AVF csz; AVI (MiniC.zlen junk); AVArrF xy; AVArrI junk]
     = Ok (RI 0, [VArrF xy; VArrI (map (coord2cell RR nrows ncols xll yll csz) (pairs xy))])) /\
  (forall nrows ncols (xll yll csz : option R) xy junk n,
     nrows <= cmax64 -> ncols <= cmax64 ->
     List.length xy = (2 * List.length junk)%nat -> (List.length junk < n)%nat ->
     exec_fun RN XRN program (S n) "c_coord2cell"
       [AVI nrows; AVI ncols; AVF xll; AVF yll; AVF csz; AVI (MiniC.zlen junk); AVArrF xy; AVArrI junk]
     = Ok (RI 0, [VArrF xy; VArrI (map (coord2cell RN nrows ncols xll yll csz) (pairs xy))])).
Proof. exact (conj refine_coord2cell_raw_RR refine_coord2cell_raw_RN). Qed.
Print Assumptions C07_kernel_coord2cell_refines_model.

(* c_neighbours = the model: the nine slots for a valid cell, a positive code and an
   untouched buffer for an invalid one *)
Theorem C07_kernel_neighbours_refines_model :
  forall {T} (N : NumOps T) (X : NumLit T) nrows ncols idx nb n,
  List.length nb = 9%nat -> (3 < n)%nat ->
  match neighbours nrows ncols idx with
  | Some l =>
      exec_fun N X program (S n) "c_neighbours" [AVI nrows; AVI ncols; AVI idx; AVArrI nb]
      = Ok (RI 0, [VArrI l])
  | None =>
      exists code, 0 < code /\
      exec_fun N X program (S n) "c_neighbours" [AVI nrows; AVI ncols; AVI idx; AVArrI nb]
      = Ok (RI code, [VArrI nb])
  end.
Proof. exact @refine_neighbours. Qed.
Print Assumptions C07_kernel_neighbours_refines_model.

(* coord2cell(cell2coord c) = c EXECUTED on the translated kernels, over the reals *)
Theorem C07_kernel_coord2cell_cell2coord :
  forall nrows ncols (xll yll csz : R) idx bufxy bufc n,
  (0 < csz)%R -> 0 < ncols -> nrows <= cmax64 -> ncols <= cmax64 ->
  Forall (fun c => 0 <= c < nrows * ncols) idx ->
  List.length bufxy = (2 * List.length idx)%nat -> List.length bufc = List.length idx ->
  (List.length idx < n)%nat ->
  exists xy,
    exec_fun RR XRR program (S n) "c_cell2coord"
      [AVI nrows; AVI ncols; AVF xll; AVF yll; AVF csz; AVI (MiniC.zlen idx); AVArrI idx; AVArrF bufxy]
      = Ok (RI 0, [VArrI idx; VArrF xy]) /\
    exec_fun RR XRR program (S n) "c_coord2cell"
      [AVI nrows; AVI ncols; AVF xll; AVF yll; AVF csz; AVI (MiniC.zlen bufc); AVArrF xy; AVArrI bufc]
      = Ok (RI 0, [VArrF xy; VArrI idx]).
Proof. exact kernel_coord2cell_cell2coord. Qed.
Print Assumptions C07_kernel_coord2cell_cell2coord.

(* non-vacuity: the translated kernels run in binary64 on a 4x3 grid *)
Example C07_kernel_runs :
  exec_fun F64 XF64 program 30 "c_cell2rowcol" [AVI 4; AVI 3; AVI 3; AVArrI [7; 0; 12]; AVArrI [9; 9; 9; 9; 9; 9]]
  = Ok (RI 0, [VArrI [7; 0; 12]; VArrI [2; 1; 0; 0; -1; -1]]).
Proof. vm_compute. reflexivity. Qed.

(* ================================================================== *)
(* BINARY64: c_coord2cell refines the model in IEEE binary64 for grids of at *)
(* most 2^53 rows / columns (floor, comparison and conversion laws proved *)
(* for primitive floats with Flocq).                                  *)
(* ================================================================== *)
From Coq Require Import String Lia PrimFloat.
From Hy Require Import Base.Num Base.MiniC Gen.KernelsAst Gen.Consts Model.Grid.
From Hy Require Proofs.F64Laws Proofs.RefineGridGeom.
Import ListNotations.
Open Scope string_scope.
Open Scope list_scope.
Open Scope Z_scope.

Theorem C07_kernel_floor_laws_binary64 :
  RefineGridGeom.floor_laws F64 XF64 (2 ^ 53).
Proof. exact @F64Laws.floor_laws_F64. Qed.
Print Assumptions C07_kernel_floor_laws_binary64.

Theorem C07_kernel_coord2cell_refines_model_binary64 :
  forall (nrows ncols : Z) (xll yll csz : float) (xy : list float) (junk : list Z) (n : nat),
       nrows <= 2 ^ 53 ->
       ncols <= 2 ^ 53 ->
       Datatypes.length xy = (2 * Datatypes.length junk)%nat ->
       (Datatypes.length junk < n)%nat ->
       exec_fun F64 XF64 program (S n) "c_coord2cell"
         [AVI nrows; AVI ncols; AVF xll; AVF yll; AVF csz; AVI (zlen junk); AVArrF xy; AVArrI junk] =
       Ok
         (RI 0,
          [VArrF xy; VArrI (map (coord2cell F64 nrows ncols xll yll csz) (RefineGridGeom.pairs xy))]).
Proof. exact @F64Laws.refine_coord2cell_raw_F64. Qed.
Print Assumptions C07_kernel_coord2cell_refines_model_binary64.

(* ================================================================== *)
(* C07 ITSELF on the REGENERATED program, second part (MiniC translation of src/hydrodiy/gis/c_grid.c): footprint, outside, cell centre, row/column and *)
(*    neighbour symmetry executed on the translated kernels (Proofs/KernelGrid2.v; the round trip is C07_kernel_coord2cell_cell2coord above). *)
(* ================================================================== *)
From Coq Require Import String Lia PrimFloat.
From Hy Require Import Base.Num Base.MiniC Gen.KernelsAst Gen.Consts Base.Num Base.MiniC Gen.KernelsAst Model.Grid.
From Hy Require Proofs.KernelGrid2.
Import ListNotations.
Open Scope string_scope.
Open Scope list_scope.
Open Scope Z_scope.

(* every point of the footprint of a cell maps to that cell: the translated c_coord2cell over the reals, any grid of at most 2^63 rows / columns with positive cell size, any list of points *)
Theorem C07_kernel_coord2cell_footprint :
  forall (nrows ncols : Z) (xll yll csz : R) (rcs : list (Z * Z)) 
         (pts : list (R * R)) (buf : list Z) (n : nat),
       (0 < csz)%R ->
       nrows <= RefineGridGeom.cmax64 ->
       ncols <= RefineGridGeom.cmax64 ->
       Forall (KernelGrid2.on_grid nrows ncols) rcs ->
       Forall2 (KernelGrid2.in_footprint nrows xll yll csz) rcs pts ->
       Datatypes.length buf = Datatypes.length pts ->
       (Datatypes.length pts < n)%nat ->
       KernelGrid2.run_coord2cell n nrows ncols xll yll csz pts buf =
       Ok (RI 0, [VArrF (RefineGridGeom.flat_xy pts); VArrI (map (KernelGrid2.cellnum ncols) rcs)]).
Proof. exact @KernelGrid2.kernel_coord2cell_footprint. Qed.
Print Assumptions C07_kernel_coord2cell_footprint.

(* every point outside the extent (all four sides, hence corners) maps to -1 *)
Theorem C07_kernel_coord2cell_outside :
  forall (nrows ncols : Z) (xll yll csz : R) (pts : list (R * R)) (buf : list Z) (n : nat),
       (0 < csz)%R ->
       nrows <= RefineGridGeom.cmax64 ->
       ncols <= RefineGridGeom.cmax64 ->
       Forall (KernelGrid2.outside_extent nrows ncols xll yll csz) pts ->
       Datatypes.length buf = Datatypes.length pts ->
       (Datatypes.length pts < n)%nat ->
       KernelGrid2.run_coord2cell n nrows ncols xll yll csz pts buf =
       Ok (RI 0, [VArrF (RefineGridGeom.flat_xy pts); VArrI (repeat (-1) (Datatypes.length pts))]).
Proof. exact @KernelGrid2.kernel_coord2cell_outside. Qed.
Print Assumptions C07_kernel_coord2cell_outside.

(* cells are numbered row by row from the top-left corner and the translated c_cell2coord writes the centre of each cell *)
Theorem C07_kernel_cell2coord_centre :
  forall (nrows ncols : Z) (xll yll csz : R) (rcs : list (Z * Z)) (buf : list R) (n : nat),
       Forall (KernelGrid2.on_grid nrows ncols) rcs ->
       Datatypes.length buf = (2 * Datatypes.length rcs)%nat ->
       (Datatypes.length rcs < n)%nat ->
       KernelGrid2.run_cell2coord n nrows ncols xll yll csz (map (KernelGrid2.cellnum ncols) rcs)
         buf =
       Ok
         (RI 0,
          [VArrI (map (KernelGrid2.cellnum ncols) rcs);
           VArrF (RefineGridGeom.flat_xy (map (KernelGrid2.centre nrows xll yll csz) rcs))]).
Proof. exact @KernelGrid2.kernel_cell2coord_centre. Qed.
Print Assumptions C07_kernel_cell2coord_centre.

(* the translated c_cell2rowcol inverts row * ncols + col (any arithmetic instance) *)
Theorem C07_kernel_cell2rowcol_rowcol :
  forall (T : Type) (N : NumOps T) (X : NumLit T) (nrows ncols : Z) 
         (rcs : list (Z * Z)) (buf : list Z) (n : nat),
       Forall (KernelGrid2.on_grid nrows ncols) rcs ->
       Datatypes.length buf = (2 * Datatypes.length rcs)%nat ->
       (Datatypes.length rcs < n)%nat ->
       KernelGrid2.run_cell2rowcol N X n nrows ncols (map (KernelGrid2.cellnum ncols) rcs) buf =
       Ok
         (RI 0,
          [VArrI (map (KernelGrid2.cellnum ncols) rcs);
           VArrI (flat_map (fun rc : Z * Z => [fst rc; snd rc]) rcs)]).
Proof. exact @KernelGrid2.kernel_cell2rowcol_rowcol. Qed.
Print Assumptions C07_kernel_cell2rowcol_rowcol.

(* cell numbers outside the grid are flagged -1, -1 *)
Theorem C07_kernel_cell2rowcol_invalid :
  forall (T : Type) (N : NumOps T) (X : NumLit T) (nrows ncols : Z) 
         (idx buf : list Z) (n : nat),
       Forall (fun c : Z => c < 0 \/ nrows * ncols <= c) idx ->
       Datatypes.length buf = (2 * Datatypes.length idx)%nat ->
       (Datatypes.length idx < n)%nat ->
       KernelGrid2.run_cell2rowcol N X n nrows ncols idx buf =
       Ok (RI 0, [VArrI idx; VArrI (repeat (-1) (2 * Datatypes.length idx))]).
Proof. exact @KernelGrid2.kernel_cell2rowcol_invalid. Qed.
Print Assumptions C07_kernel_cell2rowcol_invalid.

(* the neighbour relation computed by the translated c_neighbours is symmetric and the slots mirror: slot k of c holds d (not -1) => d is a valid cell different from c and slot 8-k of the kernel's answer for d holds c *)
Theorem C07_kernel_neighbours_symmetric :
  forall (T : Type) (N : NumOps T) (X : NumLit T) (nrows ncols c : Z) (buf : list Z) (n : nat),
       0 < ncols ->
       0 <= c < nrows * ncols ->
       Datatypes.length buf = 9%nat ->
       (3 < n)%nat ->
       exists nbc : list Z,
         KernelGrid2.run_neighbours N X n nrows ncols c buf = Ok (RI 0, [VArrI nbc]) /\
         Datatypes.length nbc = 9%nat /\
         (forall (k d : Z) (buf' : list Z),
          0 <= k <= 8 ->
          zn nbc k (-1) = d ->
          d <> -1 ->
          Datatypes.length buf' = 9%nat ->
          0 <= d < nrows * ncols /\
          d <> c /\
          (exists nbd : list Z,
             KernelGrid2.run_neighbours N X n nrows ncols d buf' = Ok (RI 0, [VArrI nbd]) /\
             Datatypes.length nbd = 9%nat /\ zn nbd (8 - k) (-1) = c)).
Proof. exact @KernelGrid2.kernel_neighbours_symmetric. Qed.
Print Assumptions C07_kernel_neighbours_symmetric.

(* the abbreviations run_coord2cell, run_cell2coord, run_cell2rowcol, run_neighbours, flat_xy, cellnum, on_grid, in_footprint, outside_extent, centre used above, unfolded *)
Theorem C07_kernel_grid2_abbreviations :
  (forall (n : nat) (nrows ncols : Z) (xll yll csz : R) (pts : list (R * R)) (buf : list Z),
        KernelGrid2.run_coord2cell n nrows ncols xll yll csz pts buf =
        exec_fun RR XRR program (S n) "c_coord2cell"
          [AVI nrows; AVI ncols; AVF xll; AVF yll; AVF csz; AVI (zlen pts);
           AVArrF (RefineGridGeom.flat_xy pts); AVArrI buf]) /\
       (forall (n : nat) (nrows ncols : Z) (xll yll csz : R) (idx : list Z) (buf : list R),
        KernelGrid2.run_cell2coord n nrows ncols xll yll csz idx buf =
        exec_fun RR XRR program (S n) "c_cell2coord"
          [AVI nrows; AVI ncols; AVF xll; AVF yll; AVF csz; AVI (zlen idx); AVArrI idx; AVArrF buf]) /\
       (forall (T : Type) (N : NumOps T) (X : NumLit T) (n : nat) (nrows ncols : Z)
          (idx buf : list Z),
        KernelGrid2.run_cell2rowcol N X n nrows ncols idx buf =
        exec_fun N X program (S n) "c_cell2rowcol"
          [AVI nrows; AVI ncols; AVI (zlen idx); AVArrI idx; AVArrI buf]) /\
       (forall (T : Type) (N : NumOps T) (X : NumLit T) (n : nat) (nrows ncols c : Z)
          (buf : list Z),
        KernelGrid2.run_neighbours N X n nrows ncols c buf =
        exec_fun N X program (S n) "c_neighbours" [AVI nrows; AVI ncols; AVI c; AVArrI buf]) /\
       (forall pts : list (R * R),
        RefineGridGeom.flat_xy pts = flat_map (fun p : R * R => [fst p; snd p]) pts) /\
       (forall ncols row col : Z, KernelGrid2.cellnum ncols (row, col) = row * ncols + col) /\
       (forall nrows ncols row col : Z,
        KernelGrid2.on_grid nrows ncols (row, col) <-> 0 <= col < ncols /\ 0 <= row < nrows) /\
       (forall (nrows : Z) (xll yll csz : R) (row col : Z) (x y : R),
        KernelGrid2.in_footprint nrows xll yll csz (row, col) (x, y) <->
        (xll + csz * IZR col <= x < xll + csz * (IZR col + 1))%R /\
        (yll + csz * IZR (nrows - 1 - row) <= y < yll + csz * (IZR (nrows - 1 - row) + 1))%R) /\
       (forall (nrows ncols : Z) (xll yll csz x y : R),
        KernelGrid2.outside_extent nrows ncols xll yll csz (x, y) <->
        (x < xll)%R \/
        (xll + csz * IZR ncols <= x)%R \/ (y < yll)%R \/ (yll + csz * IZR nrows <= y)%R) /\
       (forall (nrows : Z) (xll yll csz : R) (row col : Z),
        KernelGrid2.centre nrows xll yll csz (row, col) =
        ((xll + csz * (IZR col + / 2))%R, (yll + csz * (IZR (nrows - 1 - row) + / 2))%R)).
Proof. exact @KernelGrid2.kernel_grid2_defs. Qed.
Print Assumptions C07_kernel_grid2_abbreviations.
