(* C13 - grids and catchments survive save/load, dictionary export, cloning and
   clipping.  Statements only; proofs are in Proofs/GridIO*.v.

   Model: Model/GridIO.v (header writer/parser of Grid.save / Grid.from_stream,
   numpy dtype of (NBITS, PIXELTYPE, BYTEORDER), raw byte layout, Grid.__init__
   conversions, to_dict/from_dict, Grid.clip on Model/Grid.v, Catchment
   dictionaries).  The text form of a floating-point value is an opaque token:
   the printer/reader pair of an [IoOps T] record, about which the theorems
   assume read(print x) = x (Python's repr round trip - trusted), that a token
   has no white space and is not an integer literal.  Cell values are bit
   patterns.  Not modelled (tested by the oracle of harness/props/c13.py):
   ndarray.tofile/fromfile themselves, zip archives, copy.deepcopy (clone). *)
From Coq Require Import ZArith Bool List String Reals PrimFloat.
From Hy Require Import Base.Num Gen.ConstsC13 Model.Grid Model.GridIO
  Proofs.GridIOProofs Proofs.GridIOHeaderProofs Proofs.GridIODataProofs Proofs.GridIOClipProofs.
Import ListNotations.
Open Scope Z_scope.

(* ---------------------------------------------------------------------- *)
(* save -> header -> from_stream: shape, georeferencing, data type and no-data
   value are identical, for each of the eleven types, any shape >= 1x1, any
   cell size / origin, any no-data value representable in the type
   (conv_nodata d nd = Some nd: converting it to the type leaves it unchanged),
   any name/comment without a newline, with or without parent attributes *)
Theorem C13_header_roundtrip :
  forall (T : Type) (N : NumOps T) (IO : IoOps T),
  (forall x, io_rd IO (io_pr IO x) = Some x) ->
  (forall x, no_ws (io_pr IO x) = true) ->
  (forall x, parse_Z (io_pr IO x) = None) ->
  forall (defname : string) (m : gmeta T),
  1 <= g_nrows m < 2 ^ 63 -> 1 <= g_ncols m < 2 ^ 63 ->
  In (g_dtype m) all_dtypes ->
  conv_nodata N IO (g_dtype m) (g_nodata m) = Some (g_nodata m) ->
  no_nl (g_name m) = true -> no_nl (g_comment m) = true ->
  exists m',
    from_stream_header N IO defname (render_header IO m) = Some (m', LE) /\
    g_nrows m' = g_nrows m /\ g_ncols m' = g_ncols m /\
    g_xll m' = g_xll m /\ g_yll m' = g_yll m /\ g_csz m' = g_csz m /\
    g_dtype m' = g_dtype m /\ g_nodata m' = g_nodata m.
Proof.
  intros T N IO H1 H2 H3 defname m A B C D E F.
  exact (header_roundtrip N IO H1 H2 H3 defname m (conj A (conj B (conj C (conj D (conj E F)))))).
Qed.
Print Assumptions C13_header_roundtrip.

(* non-vacuity: a printer/reader pair meeting the three hypotheses, and a grid
   (float32, NaN-like no-data, parent attributes) meeting the others *)
Example C13_header_roundtrip_nonvacuous :
  (forall x, io_rd BIO (io_pr BIO x) = Some x) /\ (forall x, no_ws (io_pr BIO x) = true) /\
  (forall x, parse_Z (io_pr BIO x) = None) /\ meta_wf BN BIO demo_bgrid.
Proof. exact (conj BIO_pr_rd (conj BIO_pr_tok (conj BIO_pr_not_int demo_bgrid_wf))). Qed.

(* complete save/load: the cells are bit-identical *)
Theorem C13_save_load_roundtrip :
  forall (T : Type) (N : NumOps T) (IO : IoOps T),
  (forall x, io_rd IO (io_pr IO x) = Some x) ->
  (forall x, no_ws (io_pr IO x) = true) ->
  (forall x, parse_Z (io_pr IO x) = None) ->
  forall (defname : string) (m : gmeta T) (vals : list Z),
  meta_wf N IO m ->
  Forall (fun v => 0 <= v < 256 ^ snd (g_dtype m)) vals ->
  Z.of_nat (List.length vals) = g_nrows m * g_ncols m ->
  exists m',
    from_stream N IO defname (render_header IO m)
                (Some (tofile (Z.to_nat (snd (g_dtype m))) vals)) = Some (m', Some vals) /\
    g_nrows m' = g_nrows m /\ g_ncols m' = g_ncols m /\
    g_xll m' = g_xll m /\ g_yll m' = g_yll m /\ g_csz m' = g_csz m /\
    g_dtype m' = g_dtype m /\ g_nodata m' = g_nodata m.
Proof. exact @save_load_roundtrip. Qed.
Print Assumptions C13_save_load_roundtrip.

(* rasters of either byte order: a header in the layout of Grid.save declaring
   BYTEORDER I or M, items written in that order *)
Theorem C13_raster_roundtrip_either_byte_order :
  forall (T : Type) (N : NumOps T) (IO : IoOps T),
  (forall x, io_rd IO (io_pr IO x) = Some x) ->
  (forall x, no_ws (io_pr IO x) = true) ->
  (forall x, parse_Z (io_pr IO x) = None) ->
  forall (defname : string) (bo : border) (m : gmeta T) (vals : list Z),
  meta_wf N IO m ->
  Forall (fun v => 0 <= v < 256 ^ snd (g_dtype m)) vals ->
  Z.of_nat (List.length vals) = g_nrows m * g_ncols m ->
  exists m',
    from_stream N IO defname (header_text IO bo m)
                (Some (tofile_bo bo (Z.to_nat (snd (g_dtype m))) vals)) = Some (m', Some vals) /\
    g_nrows m' = g_nrows m /\ g_ncols m' = g_ncols m /\
    g_xll m' = g_xll m /\ g_yll m' = g_yll m /\ g_csz m' = g_csz m /\
    g_dtype m' = g_dtype m /\ g_nodata m' = g_nodata m.
Proof. exact @raster_roundtrip. Qed.
Print Assumptions C13_raster_roundtrip_either_byte_order.

(* the items of the file are the loaded cells, whatever the attributes *)
Theorem C13_load_either_byte_order :
  forall (T : Type) (m : gmeta T) (bo : border) (vals : list Z),
  In (g_dtype m) all_dtypes ->
  Forall (fun v => 0 <= v < 256 ^ snd (g_dtype m)) vals ->
  Z.of_nat (List.length vals) = g_nrows m * g_ncols m ->
  load m bo (tofile_bo bo (Z.to_nat (snd (g_dtype m))) vals) = Some vals.
Proof. exact @load_tofile. Qed.
Print Assumptions C13_load_either_byte_order.

Example C13_load_big_endian_example :
  load (mkG "g"%string 2 1 1%float 0%float 0%float (KInt, 2) (NInt 0) ""%string []) BE [1; 2; 255; 254]
  = Some [258; 65534].
Proof. reflexivity. Qed.

Theorem C13_decode_encode :
  forall bo n vals, (0 < n)%nat -> Forall (fun v => 0 <= v < 256 ^ Z.of_nat n) vals ->
  decode n bo (tofile_bo bo n vals) = vals.
Proof. exact decode_encode. Qed.
Print Assumptions C13_decode_encode.

(* a raw file holding another number of items is rejected *)
Theorem C13_load_wrong_size :
  forall (T : Type) (m : gmeta T) bo bytes,
  Z.of_nat (List.length (decode (Z.to_nat (snd (g_dtype m))) bo bytes)) <> g_nrows m * g_ncols m ->
  load m bo bytes = None.
Proof. exact @load_wrong_size. Qed.
Print Assumptions C13_load_wrong_size.

Theorem C13_save_load_wrong_size :
  forall (T : Type) (N : NumOps T) (IO : IoOps T),
  (forall x, io_rd IO (io_pr IO x) = Some x) ->
  (forall x, no_ws (io_pr IO x) = true) ->
  (forall x, parse_Z (io_pr IO x) = None) ->
  forall defname (m : gmeta T) bytes,
  meta_wf N IO m ->
  Z.of_nat (List.length (decode (Z.to_nat (snd (g_dtype m))) LE bytes)) <> g_nrows m * g_ncols m ->
  from_stream N IO defname (render_header IO m) (Some bytes) = None.
Proof. exact @save_load_wrong_size. Qed.
Print Assumptions C13_save_load_wrong_size.

(* headers that come with rasters produced elsewhere (ULXMAP/ULYMAP/XDIM/YDIM/NODATA):
   cell size = XDIM, x corner = ULXMAP, y corner = ULYMAP - cellsize*nrows; cells
   that are not square beyond the tolerance are rejected *)
Theorem C13_esri_header :
  forall (T : Type) (N : NumOps T) (IO : IoOps T),
  (forall x, io_rd IO (io_pr IO x) = Some x) ->
  (forall x, no_ws (io_pr IO x) = true) ->
  (forall x, parse_Z (io_pr IO x) = None) ->
  forall (w : Z) (defname : string) (m : gmeta T) (ux uy xd yd : T),
  1 <= g_nrows m < 2 ^ 63 -> 1 <= g_ncols m < 2 ^ 63 -> In (g_dtype m) all_dtypes ->
  conv_nodata N IO (g_dtype m) (g_nodata m) = Some (g_nodata m) ->
  from_stream_header N IO defname (String.concat "" (esri_lines IO w m ux uy xd yd)) =
  if nltb N (io_tol IO) (nabs N (nsub N yd xd)) then None
  else Some (mkG defname (g_ncols m) (g_nrows m) xd ux (nsub N uy (nmul N xd (nofZ N (g_nrows m))))
                 (g_dtype m) (g_nodata m) STREAM_DEF_COMMENT [], LE).
Proof. exact @esri_header. Qed.
Print Assumptions C13_esri_header.

(* over the reals, square cells (YDIM = XDIM) always pass the test of the extracted tolerance *)
Example C13_esri_square_cells :
  forall x : R, nltb RR STREAM_YDIM_TOL_R (nabs RR (nsub RR x x)) = false.
Proof. intros x. exact (esri_square_RR STREAM_YDIM_TOL_R x ydim_tol_nonneg). Qed.

(* the file must hold exactly nrows*ncols whole items *)
Theorem C13_load_size_iff :
  forall (T : Type) (m : gmeta T) bo bytes,
  In (g_dtype m) all_dtypes ->
  (load m bo bytes <> None <->
   Z.of_nat (List.length bytes / Z.to_nat (snd (g_dtype m))) = g_nrows m * g_ncols m).
Proof. exact @load_size_iff. Qed.
Print Assumptions C13_load_size_iff.

(* error branches of the header parser / constructor / from_dict *)
Theorem C13_parse_line_one_token :
  forall (T : Type) (IO : IoOps T) st l k,
  tokens l = [k] -> key_class (lower k) <> KCText -> parse_line IO st l = None.
Proof. exact @parse_line_one_token. Qed.
Print Assumptions C13_parse_line_one_token.

Example C13_parse_line_one_token_example :
  tokens (append "NROWS" NL) = [append "NROWS" NL] /\ key_class (lower (append "NROWS" NL)) <> KCText.
Proof. split; [reflexivity | vm_compute; discriminate]. Qed.

Theorem C13_bad_byteorder :
  forall (T : Type) (N : NumOps T) (IO : IoOps T) c p b,
  get_text c "byteorder" = Some b -> b <> "m"%string -> b <> "i"%string -> finish_stream N IO (c, p) = None.
Proof. exact @finish_stream_bad_byteorder. Qed.
Print Assumptions C13_bad_byteorder.

Theorem C13_nodata_out_of_range :
  forall (T : Type) (N : NumOps T) (IO : IoOps T) d z name nc nr csz xll yll comment,
  fst d <> KFloat -> in_range d z = false ->
  mk_grid N IO name nc nr csz xll yll d (NInt z) comment = None.
Proof.
  intros. apply mk_grid_bad_nodata. apply conv_nodata_out_of_range; assumption.
Qed.
Print Assumptions C13_nodata_out_of_range.

Example C13_nodata_out_of_range_example : in_range (KInt, 1) 128 = false /\ in_range (KUInt, 2) (-1) = false.
Proof. split; reflexivity. Qed.

Theorem C13_negative_shape :
  forall (T : Type) (N : NumOps T) (IO : IoOps T) name nc nr csz xll yll d nd comment,
  nr < 0 \/ nc < 0 -> mk_grid N IO name nc (Some nr) csz xll yll d nd comment = None.
Proof. exact @mk_grid_negative. Qed.
Print Assumptions C13_negative_shape.

Theorem C13_from_dict_missing_key :
  forall (T : Type) (N : NumOps T) (IO : IoOps T) (d : dict T),
  lookup "name" d = None \/ lookup "ncols" d = None -> from_dict N IO d = None.
Proof. exact @from_dict_missing. Qed.
Print Assumptions C13_from_dict_missing_key.

(* ---------------------------------------------------------------------- *)
(* dictionary export / import *)
Theorem C13_dict_roundtrip :
  forall (T : Type) (N : NumOps T) (IO : IoOps T),
  (forall d x, io_rds IO d (io_prs IO d x) = Some x) ->
  forall m : gmeta T,
  0 <= g_nrows m < 2 ^ 63 -> 0 <= g_ncols m < 2 ^ 63 ->
  In (g_dtype m) all_dtypes ->
  conv_nodata N IO (g_dtype m) (g_nodata m) = Some (g_nodata m) ->
  from_dict N IO (to_dict IO m) =
  Some (mkG (g_name m) (g_ncols m) (g_nrows m) (g_csz m) (g_xll m) (g_yll m) (g_dtype m)
            (g_nodata m) (g_comment m) []).
Proof.
  intros T N IO H m A B C D.
  exact (dict_roundtrip N IO H m (conj A (conj B (conj C D)))).
Qed.
Print Assumptions C13_dict_roundtrip.

Example C13_dict_roundtrip_nonvacuous :
  (forall d x, io_rds BIO d (io_prs BIO d x) = Some x) /\ dict_wf BN BIO demo_bgrid.
Proof. exact (conj BIO_prs_rds demo_bgrid_dict_wf). Qed.

(* catchment dictionaries: outlet, inlets, both areas *)
Theorem C13_catchment_dict_roundtrip :
  forall (T : Type) (N : NumOps T) (IO : IoOps T),
  (forall d x, io_rds IO d (io_prs IO d x) = Some x) ->
  forall c : catch (T := T),
  (exists a, c_area c = Some a) -> (exists f, c_filled c = Some f) -> dict_wf N IO (c_flow c) ->
  exists d c',
    cat_to_dict IO c = Some d /\ cat_from_dict N IO d = Some c' /\
    c_name c' = c_name c /\ c_outlet c' = c_outlet c /\ c_inlets c' = c_inlets c /\
    c_area c' = c_area c /\ c_filled c' = c_filled c /\
    c_flow c' = as_int64 (drop_parent (c_flow c)).
Proof.
  intros T N IO H c A B C. exact (catchment_dict_roundtrip N IO H c (conj A (conj B C))).
Qed.
Print Assumptions C13_catchment_dict_roundtrip.

Example C13_catchment_dict_example :
  exists d c',
    cat_to_dict demoIO demo_catch = Some d /\ cat_from_dict F64 demoIO d = Some c' /\
    c_outlet c' = Some 7 /\ c_inlets c' = Some [1] /\ c_area c' = Some [4; 7].
Proof.
  eexists. eexists. split; [vm_compute; reflexivity|]. split; [vm_compute; reflexivity|].
  repeat split; reflexivity.
Qed.

Theorem C13_catchment_to_dict_undelineated :
  forall (T : Type) (IO : IoOps T) (c : catch (T := T)), c_area c = None -> cat_to_dict IO c = None.
Proof. exact @catchment_to_dict_undelineated. Qed.
Print Assumptions C13_catchment_to_dict_undelineated.

(* ---------------------------------------------------------------------- *)
(* clip: both corners inside the extent; the clip is the block of parent cells
   between the cells of the corners, each clip cell has the centre and the
   value of the parent cell it coincides with *)
Theorem C13_clip_centres :
  forall (IO : IoOps R) (m : gmeta R) (data : list Z) (xll yll xur yur : R),
  (0 < g_csz m)%R -> 0 < g_nrows m < 2 ^ 63 -> 0 < g_ncols m < 2 ^ 63 ->
  conv_nodata RR IO (g_dtype m) (g_nodata m) = Some (g_nodata m) ->
  (g_xll m <= xll <= xur)%R -> (xur < g_xll m + g_csz m * IZR (g_ncols m))%R ->
  (g_yll m <= yll <= yur)%R -> (yur < g_yll m + g_csz m * IZR (g_nrows m))%R ->
  exists r,
    clip RR IO m data xll yll xur yur = Some r /\
    0 <= k_row0 r <= k_row1 r /\ k_row1 r < g_nrows m /\
    0 <= k_col0 r <= k_col1 r /\ k_col1 r < g_ncols m /\
    g_nrows (k_meta r) = k_row1 r - k_row0 r + 1 /\
    g_ncols (k_meta r) = k_col1 r - k_col0 r + 1 /\
    coord2cell RR (g_nrows m) (g_ncols m) (g_xll m) (g_yll m) (g_csz m) (xll, yll)
      = k_row1 r * g_ncols m + k_col0 r /\
    coord2cell RR (g_nrows m) (g_ncols m) (g_xll m) (g_yll m) (g_csz m) (xur, yur)
      = k_row0 r * g_ncols m + k_col1 r /\
    g_csz (k_meta r) = g_csz m /\ g_dtype (k_meta r) = g_dtype m /\ g_nodata (k_meta r) = g_nodata m /\
    (* parent bookkeeping *)
    lookup "parentgrid_rows_start"%string (g_parent (k_meta r)) = Some (PInt (k_row0 r)) /\
    lookup "parentgrid_rows_end"%string (g_parent (k_meta r)) = Some (PInt (k_row1 r)) /\
    lookup "parentgrid_cols_start"%string (g_parent (k_meta r)) = Some (PInt (k_col0 r)) /\
    lookup "parentgrid_cols_end"%string (g_parent (k_meta r)) = Some (PInt (k_col1 r)) /\
    forall i j, 0 <= i < g_nrows (k_meta r) -> 0 <= j < g_ncols (k_meta r) ->
      cell2coord RR (g_nrows (k_meta r)) (g_ncols (k_meta r)) (g_xll (k_meta r)) (g_yll (k_meta r))
                 (g_csz (k_meta r)) (i * g_ncols (k_meta r) + j) =
      cell2coord RR (g_nrows m) (g_ncols m) (g_xll m) (g_yll m) (g_csz m)
                 ((k_row0 r + i) * g_ncols m + (k_col0 r + j)) /\
      zn (k_data r) (i * g_ncols (k_meta r) + j) 0 =
      zn data ((k_row0 r + i) * g_ncols m + (k_col0 r + j)) 0.
Proof. exact clip_centres. Qed.
Print Assumptions C13_clip_centres.

Example C13_clip_example :
  exists r,
    clip RR clip_io clip_grid clip_data 10.5%R 20.5%R 15%R 25%R = Some r /\
    (k_row0 r = 1 /\ k_row1 r = 3 /\ k_col0 r = 0 /\ k_col1 r = 2) /\
    k_data r = [10; 11; 12; 20; 21; 22; 30; 31; 32].
Proof. exact clip_example. Qed.

(* ---------------------------------------------------------------------- *)
(* ties to the extracted constants *)
Theorem C13_save_keys_tie :
  SAVE_KEYS = ["NBITS"; "PIXELTYPE"; "BYTEORDER"; "NODATA_VALUE"; "NAME"; "COMMENT"]%string.
Proof. exact save_keys_tie. Qed.
Print Assumptions C13_save_keys_tie.

Theorem C13_pixeltype_regex_tie : STREAM_PIXELTYPE_REGEX = PIXELTYPE_REGEX_MODELLED.
Proof. exact pixeltype_regex_tie. Qed.
Print Assumptions C13_pixeltype_regex_tie.

(* every (NBITS, PIXELTYPE, BYTEORDER) triple Grid.save can write maps back to the type *)
Theorem C13_dtype_sweep :
  forall d bo, In d all_dtypes ->
  np_dtype (append (border_char bo) (append (resub_pt (lower (upper (pixeltype_text d)))) (show_Z (snd d * 8 / 8))))
  = Some d.
Proof. exact dtype_sweep. Qed.
Print Assumptions C13_dtype_sweep.

(* ---------------------------------------------------------------------- *)
(* the pinned code (before the fix: commits) is refuted *)
Theorem C13_header_nodata_pinned_refuted :
  exists m m',
    from_stream_header_pinned F64 demoIO "g" (render_header_pinned demoIO m) = Some (m', LE) /\
    g_nodata m = NInt (-99) /\ g_nodata m' = NInt 0.
Proof. exact header_nodata_pinned_refuted. Qed.
Print Assumptions C13_header_nodata_pinned_refuted.

Theorem C13_header_nodata_int64_pinned_refuted :
  exists text,
    (exists m', from_stream_header F64 (tabIO [] [("9223372036854775807"%string, 0x1p+63%float)]) "g" text
                = Some (m', LE) /\ g_nodata m' = NInt 9223372036854775807) /\
    from_stream_header_pinned F64 (tabIO [] [("9223372036854775807"%string, 0x1p+63%float)]) "g" text = None.
Proof. exact header_nodata_int64_pinned_refuted. Qed.
Print Assumptions C13_header_nodata_int64_pinned_refuted.

Theorem C13_bigendian_pinned_refuted :
  exists (m : gmeta float) vals,
    load m BE (tofile_bo BE 2 vals) = Some vals /\
    load_pinned_order m BE (tofile_bo BE 2 vals) <> Some vals.
Proof. exact bigendian_pinned_refuted. Qed.
Print Assumptions C13_bigendian_pinned_refuted.

Theorem C13_via_f64_pinned_refuted :
  exists v, in_range (KInt, 8) v = true /\ via_f64 F64 (KInt, 8) v <> Some v.
Proof. exact via_f64_pinned_refuted. Qed.
Print Assumptions C13_via_f64_pinned_refuted.

Theorem C13_catchment_inlets_pinned_refuted :
  exists c d c',
    cat_to_dict demoIO c = Some d /\ cat_from_dict_pinned F64 demoIO d = Some c' /\
    c_inlets c = Some [1] /\ c_inlets c' = None.
Proof. exact catchment_inlets_pinned_refuted. Qed.
Print Assumptions C13_catchment_inlets_pinned_refuted.
