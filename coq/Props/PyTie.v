(* PyTie - the SECOND tie of the closed-form Python code to the Coq development:
   the hand-written model functions of Model/Transform.v EQUAL, for all arguments,
   the definitions regenerated from the Python source (stdlib `ast`) by
   harness/pytrans.py into Gen/PyGen.v on every run.  A semantic edit of a formula
   in stat/transform.py therefore breaks one of the proofs below deterministically
   (C01/C02 then report the broken proof), whereas the sampled numerical
   correspondence (engine E3) only detects it on the sample.

   Statements only; proofs are `exact <lemma>` of Proofs/PyGenTransformProofs.v and
   Proofs/PyGenTransformJacProofs.v.  Per class:
     PyTie_<Class>             gen_<Class>_{fwd,bwd,jac} = model, for all arguments
     PyTie_<Class>_invertible  the C01 round-trip theorem about the GENERATED definitions
     PyTie_<Class>_jacobian    the C02 derivative / positivity / monotonicity theorem
                               about the GENERATED definitions
   The hypotheses of the corollaries are those of C01/C02 (non-vacuity: C01_nonvacuous,
   C02_nonvacuous).  Argument order of the generated definitions: constructor
   arguments, parameters, constants (in the order of the source), then x.
   Where the code fills a NaN-initialised array under masks (Yeo-Johnson) the
   generated definition has type option R and the theorem shows it is always Some.
   Softmax is generated for one row; `all_rows` applies a row function to every row
   and fails when some row fails (np.any over the whole array, then raise). *)
From Coq Require Import Reals List Bool.
From Coquelicot Require Import Coquelicot.
From Hy Require Import Base.Num Gen.ConstsC01 Model.Transform Gen.PyGen
  Proofs.TransformProofs Proofs.TransformJacProofs
  Proofs.PyGenTransformProofs Proofs.PyGenTransformJacProofs.
Import ListNotations.
Open Scope R_scope.

(* the module constant EPS as read by the translator = the model's EPS *)
Theorem PyTie_EPS : gen_EPS = EPS.
Proof. exact gen_EPS_eq. Qed.
Print Assumptions PyTie_EPS.

(* ---- Identity ---- *)
Theorem PyTie_Identity :
  (forall x,
   gen_Identity_fwd x = id_fwd x) /\
  (forall y,
   gen_Identity_bwd y = id_bwd y) /\
  (forall x,
   gen_Identity_jac x = id_jac x).
Proof. exact (conj pygen_Identity_fwd (conj pygen_Identity_bwd pygen_Identity_jac)). Qed.
Print Assumptions PyTie_Identity.

Theorem PyTie_Identity_invertible : (forall x, gen_Identity_bwd (gen_Identity_fwd x) = x) /\
  (forall y, gen_Identity_fwd (gen_Identity_bwd y) = y).
Proof. exact pyinv_Identity. Qed.
Print Assumptions PyTie_Identity_invertible.

Theorem PyTie_Identity_jacobian : (forall x, is_derive gen_Identity_fwd x (gen_Identity_jac x) /\ 0 < gen_Identity_jac x) /\
  (forall x1 x2, x1 < x2 -> gen_Identity_fwd x1 < gen_Identity_fwd x2).
Proof. exact pyjac_Identity. Qed.
Print Assumptions PyTie_Identity_jacobian.

(* ---- Logit ---- *)
Theorem PyTie_Logit :
  (forall lower logdelta x,
   gen_Logit_fwd lower logdelta x = logit_fwd lower logdelta x) /\
  (forall lower logdelta y,
   gen_Logit_bwd lower logdelta y = logit_bwd lower logdelta y) /\
  (forall lower logdelta x,
   gen_Logit_jac lower logdelta x = logit_jac lower logdelta x).
Proof. exact (conj pygen_Logit_fwd (conj pygen_Logit_bwd pygen_Logit_jac)). Qed.
Print Assumptions PyTie_Logit.

Theorem PyTie_Logit_invertible : (forall lower logdelta x, lower < x < lower + exp logdelta ->
     gen_Logit_bwd lower logdelta (gen_Logit_fwd lower logdelta x) = x) /\
  (forall lower logdelta y,
     gen_Logit_fwd lower logdelta (gen_Logit_bwd lower logdelta y) = y).
Proof. exact pyinv_Logit. Qed.
Print Assumptions PyTie_Logit_invertible.

Theorem PyTie_Logit_jacobian : (forall lower logdelta x j, gen_Logit_jac lower logdelta x = Some j ->
     is_derive (gen_Logit_fwd lower logdelta) x j /\ 0 < j) /\
  (forall lower logdelta x1 x2, lower < x1 -> x2 < lower + exp logdelta -> x1 < x2 ->
     gen_Logit_fwd lower logdelta x1 < gen_Logit_fwd lower logdelta x2).
Proof. exact pyjac_Logit. Qed.
Print Assumptions PyTie_Logit_jacobian.

(* ---- Log ---- *)
Theorem PyTie_Log :
  (forall mininu base nu x,
   gen_Log_fwd mininu base nu x = log_fwd (log_basefactor base) nu x) /\
  (forall mininu base nu y,
   gen_Log_bwd mininu base nu y = log_bwd (log_basefactor base) nu y) /\
  (forall mininu base nu x,
   gen_Log_jac mininu base nu x = log_jac mininu (log_basefactor base) nu x).
Proof. exact (conj pygen_Log_fwd (conj pygen_Log_bwd pygen_Log_jac)). Qed.
Print Assumptions PyTie_Log.

Theorem PyTie_Log_invertible : (forall mininu base nu x, log_base_ok base -> 0 < x + nu ->
     gen_Log_bwd mininu base nu (gen_Log_fwd mininu base nu x) = x) /\
  (forall mininu base nu y, log_base_ok base ->
     gen_Log_fwd mininu base nu (gen_Log_bwd mininu base nu y) = y).
Proof. exact pyinv_Log. Qed.
Print Assumptions PyTie_Log_invertible.

Theorem PyTie_Log_jacobian : (forall mininu base nu x j, 0 <= mininu -> log_base_ok base ->
     gen_Log_jac mininu base nu x = Some j ->
     is_derive (gen_Log_fwd mininu base nu) x j /\ (log_base_gt1 base -> 0 < j)) /\
  (forall mininu base nu x1 x2, log_base_gt1 base -> 0 < x1 + nu -> x1 < x2 ->
     gen_Log_fwd mininu base nu x1 < gen_Log_fwd mininu base nu x2).
Proof. exact pyjac_Log. Qed.
Print Assumptions PyTie_Log_jacobian.

(* ---- BoxCox2 ---- *)
Theorem PyTie_BoxCox2 :
  (forall mininu minilam nu lam x,
   gen_BoxCox2_fwd mininu minilam nu lam x = bc2_fwd nu lam x) /\
  (forall mininu minilam nu lam y,
   gen_BoxCox2_bwd mininu minilam nu lam y = bc2_bwd nu lam y) /\
  (forall mininu minilam nu lam x,
   gen_BoxCox2_jac mininu minilam nu lam x = bc2_jac mininu nu lam x).
Proof. exact (conj pygen_BoxCox2_fwd (conj pygen_BoxCox2_bwd pygen_BoxCox2_jac)). Qed.
Print Assumptions PyTie_BoxCox2.

Theorem PyTie_BoxCox2_invertible : (forall mininu minilam nu lam x, 0 < x + nu ->
     gen_BoxCox2_bwd mininu minilam nu lam (gen_BoxCox2_fwd mininu minilam nu lam x) = x) /\
  (forall mininu minilam nu lam y, (EPS < Rabs lam -> 0 < lam * y + 1) ->
     gen_BoxCox2_fwd mininu minilam nu lam (gen_BoxCox2_bwd mininu minilam nu lam y) = y).
Proof. exact pyinv_BoxCox2. Qed.
Print Assumptions PyTie_BoxCox2_invertible.

Theorem PyTie_BoxCox2_jacobian : (forall mininu minilam nu lam x j, 0 <= mininu -> gen_BoxCox2_jac mininu minilam nu lam x = Some j ->
     is_derive (gen_BoxCox2_fwd mininu minilam nu lam) x j /\ 0 < j) /\
  (forall mininu minilam nu lam x1 x2, 0 < x1 + nu -> x1 < x2 ->
     gen_BoxCox2_fwd mininu minilam nu lam x1 < gen_BoxCox2_fwd mininu minilam nu lam x2).
Proof. exact pyjac_BoxCox2. Qed.
Print Assumptions PyTie_BoxCox2_jacobian.

(* ---- BoxCox1lam ---- *)
Theorem PyTie_BoxCox1lam :
  (forall mininu minilam nu lam x,
   gen_BoxCox1lam_fwd mininu minilam lam nu x = bc1lam_fwd mininu minilam nu lam x) /\
  (forall mininu minilam nu lam y,
   gen_BoxCox1lam_bwd mininu minilam lam nu y = bc1lam_bwd mininu minilam nu lam y) /\
  (forall mininu minilam nu lam x,
   gen_BoxCox1lam_jac mininu minilam lam nu x = bc1lam_jac mininu minilam nu lam x).
Proof. exact (conj pygen_BoxCox1lam_fwd (conj pygen_BoxCox1lam_bwd pygen_BoxCox1lam_jac)). Qed.
Print Assumptions PyTie_BoxCox1lam.

Theorem PyTie_BoxCox1lam_invertible : forall mininu minilam nu lam,
  bc1lam_params_ok mininu minilam nu lam ->
  (forall x, 0 < x + nu ->
     gen_BoxCox1lam_bwd mininu minilam lam nu (gen_BoxCox1lam_fwd mininu minilam lam nu x) = x) /\
  (forall y, (EPS < Rabs lam -> 0 < lam * y + 1) ->
     gen_BoxCox1lam_fwd mininu minilam lam nu (gen_BoxCox1lam_bwd mininu minilam lam nu y) = y).
Proof. exact pyinv_BoxCox1lam. Qed.
Print Assumptions PyTie_BoxCox1lam_invertible.

Theorem PyTie_BoxCox1lam_jacobian : (forall mininu minilam nu lam x j, 0 <= mininu -> bc1lam_params_ok mininu minilam nu lam ->
     gen_BoxCox1lam_jac mininu minilam lam nu x = Some j ->
     is_derive (gen_BoxCox1lam_fwd mininu minilam lam nu) x j /\ 0 < j) /\
  (forall mininu minilam nu lam x1 x2, bc1lam_params_ok mininu minilam nu lam ->
     0 < x1 + nu -> x1 < x2 ->
     gen_BoxCox1lam_fwd mininu minilam lam nu x1 < gen_BoxCox1lam_fwd mininu minilam lam nu x2).
Proof. exact pyjac_BoxCox1lam. Qed.
Print Assumptions PyTie_BoxCox1lam_jacobian.

(* ---- BoxCox1nu ---- *)
Theorem PyTie_BoxCox1nu :
  (forall mininu minilam nu lam x,
   gen_BoxCox1nu_fwd mininu minilam nu lam x = bc1nu_fwd mininu minilam nu lam x) /\
  (forall mininu minilam nu lam y,
   gen_BoxCox1nu_bwd mininu minilam nu lam y = bc1nu_bwd mininu minilam nu lam y) /\
  (forall mininu minilam nu lam x,
   gen_BoxCox1nu_jac mininu minilam nu lam x = bc1nu_jac mininu minilam nu lam x).
Proof. exact (conj pygen_BoxCox1nu_fwd (conj pygen_BoxCox1nu_bwd pygen_BoxCox1nu_jac)). Qed.
Print Assumptions PyTie_BoxCox1nu.

Theorem PyTie_BoxCox1nu_invertible : forall mininu minilam nu lam,
  bc1nu_params_ok mininu minilam nu lam ->
  (forall x, 0 < x + nu ->
     gen_BoxCox1nu_bwd mininu minilam nu lam (gen_BoxCox1nu_fwd mininu minilam nu lam x) = x) /\
  (forall y, (EPS < Rabs lam -> 0 < lam * y + 1) ->
     gen_BoxCox1nu_fwd mininu minilam nu lam (gen_BoxCox1nu_bwd mininu minilam nu lam y) = y).
Proof. exact pyinv_BoxCox1nu. Qed.
Print Assumptions PyTie_BoxCox1nu_invertible.

Theorem PyTie_BoxCox1nu_jacobian : (forall mininu minilam nu lam x j, 0 <= mininu -> bc1nu_params_ok mininu minilam nu lam ->
     gen_BoxCox1nu_jac mininu minilam nu lam x = Some j ->
     is_derive (gen_BoxCox1nu_fwd mininu minilam nu lam) x j /\ 0 < j) /\
  (forall mininu minilam nu lam x1 x2, bc1nu_params_ok mininu minilam nu lam ->
     0 < x1 + nu -> x1 < x2 ->
     gen_BoxCox1nu_fwd mininu minilam nu lam x1 < gen_BoxCox1nu_fwd mininu minilam nu lam x2).
Proof. exact pyjac_BoxCox1nu. Qed.
Print Assumptions PyTie_BoxCox1nu_jacobian.

(* ---- BoxCox2sym ---- *)
Theorem PyTie_BoxCox2sym :
  (forall mininu minilam nu lam x,
   gen_BoxCox2sym_fwd mininu minilam nu lam x = bc2sym_fwd mininu minilam nu lam x) /\
  (forall mininu minilam nu lam y,
   gen_BoxCox2sym_bwd mininu minilam nu lam y = bc2sym_bwd mininu minilam nu lam y) /\
  (forall mininu minilam nu lam x,
   gen_BoxCox2sym_jac mininu minilam nu lam x = bc2sym_jac mininu minilam nu lam x).
Proof. exact (conj pygen_BoxCox2sym_fwd (conj pygen_BoxCox2sym_bwd pygen_BoxCox2sym_jac)). Qed.
Print Assumptions PyTie_BoxCox2sym.

Theorem PyTie_BoxCox2sym_invertible : forall mininu minilam nu lam,
  bc2sym_params_ok mininu minilam nu lam -> 0 < nu ->
  (forall x, gen_BoxCox2sym_bwd mininu minilam nu lam
               (gen_BoxCox2sym_fwd mininu minilam nu lam x) = x) /\
  (forall y, (EPS < Rabs lam -> 0 < lam * (Rabs y + bc2_fwd nu lam 0) + 1) ->
     gen_BoxCox2sym_fwd mininu minilam nu lam (gen_BoxCox2sym_bwd mininu minilam nu lam y) = y).
Proof. exact pyinv_BoxCox2sym. Qed.
Print Assumptions PyTie_BoxCox2sym_invertible.

Theorem PyTie_BoxCox2sym_jacobian : (forall mininu minilam nu lam x j, 0 <= mininu -> bc2sym_params_ok mininu minilam nu lam ->
     x <> 0 -> gen_BoxCox2sym_jac mininu minilam nu lam x = Some j ->
     is_derive (gen_BoxCox2sym_fwd mininu minilam nu lam) x j /\ 0 < j) /\
  (forall mininu minilam nu lam x1 x2, bc2sym_params_ok mininu minilam nu lam -> 0 < nu ->
     x1 < x2 ->
     gen_BoxCox2sym_fwd mininu minilam nu lam x1 < gen_BoxCox2sym_fwd mininu minilam nu lam x2).
Proof. exact pyjac_BoxCox2sym. Qed.
Print Assumptions PyTie_BoxCox2sym_jacobian.

(* ---- YeoJohnson ---- *)
Theorem PyTie_YeoJohnson :
  (forall nu scale lam x,
   gen_YeoJohnson_fwd nu scale lam x = Some (yj_fwd nu scale lam x)) /\
  (forall nu scale lam y,
   gen_YeoJohnson_bwd nu scale lam y = Some (yj_bwd nu scale lam y)) /\
  (forall nu scale lam x,
   gen_YeoJohnson_jac nu scale lam x = Some (yj_jac nu scale lam x)).
Proof. exact (conj pygen_YeoJohnson_fwd (conj pygen_YeoJohnson_bwd pygen_YeoJohnson_jac)). Qed.
Print Assumptions PyTie_YeoJohnson.

Theorem PyTie_YeoJohnson_invertible : (forall nu scale lam x y, yj_params_ok nu scale lam ->
     (yj_w nu scale x <= 0 \/ 2 * EPS <= yj_w nu scale x) ->
     gen_YeoJohnson_fwd nu scale lam x = Some y -> gen_YeoJohnson_bwd nu scale lam y = Some x) /\
  (forall nu scale lam x y, yj_params_ok nu scale lam -> yj_same_side_bwd lam y -> yj_image lam y ->
     gen_YeoJohnson_bwd nu scale lam y = Some x -> gen_YeoJohnson_fwd nu scale lam x = Some y).
Proof. exact pyinv_YeoJohnson. Qed.
Print Assumptions PyTie_YeoJohnson_invertible.

Theorem PyTie_YeoJohnson_jacobian : (forall nu scale lam x j, yj_params_ok nu scale lam -> yj_w nu scale x <> EPS ->
     gen_YeoJohnson_jac nu scale lam x = Some j ->
     is_derive (fun t => oget (gen_YeoJohnson_fwd nu scale lam t)) x j /\ 0 < j) /\
  (forall nu scale lam x1 x2 y1 y2, yj_params_ok nu scale lam -> x1 < x2 ->
     (EPS <= yj_w nu scale x1 \/ yj_w nu scale x2 < EPS \/
      (yj_w nu scale x1 <= 0 /\ EPS <= yj_w nu scale x2)) ->
     gen_YeoJohnson_fwd nu scale lam x1 = Some y1 -> gen_YeoJohnson_fwd nu scale lam x2 = Some y2 ->
     y1 < y2).
Proof. exact pyjac_YeoJohnson. Qed.
Print Assumptions PyTie_YeoJohnson_jacobian.

(* ---- LogSinh ---- *)
Theorem PyTie_LogSinh :
  (forall loga logb xmax x,
   gen_LogSinh_fwd loga logb xmax x = logsinh_fwd loga logb xmax x) /\
  (forall loga logb xmax y,
   gen_LogSinh_bwd loga logb xmax y = logsinh_bwd loga logb xmax y) /\
  (forall loga logb xmax x,
   gen_LogSinh_jac loga logb xmax x = logsinh_jac loga logb xmax x).
Proof. exact (conj pygen_LogSinh_fwd (conj pygen_LogSinh_bwd pygen_LogSinh_jac)). Qed.
Print Assumptions PyTie_LogSinh.

Theorem PyTie_LogSinh_invertible : (forall loga logb xmax x, logsinh_params_ok loga logb xmax ->
     logsinh_guard loga logb xmax x = true ->
     exists y, gen_LogSinh_fwd loga logb xmax x = Some y /\ gen_LogSinh_bwd loga logb xmax y = x) /\
  (forall loga logb xmax y, logsinh_params_ok loga logb xmax ->
     logsinh_guard loga logb xmax (gen_LogSinh_bwd loga logb xmax y) = true ->
     gen_LogSinh_fwd loga logb xmax (gen_LogSinh_bwd loga logb xmax y) = Some y).
Proof. exact pyinv_LogSinh. Qed.
Print Assumptions PyTie_LogSinh_invertible.

Theorem PyTie_LogSinh_jacobian : (forall loga logb xmax x j, logsinh_params_ok loga logb xmax ->
     gen_LogSinh_jac loga logb xmax x = Some j ->
     is_derive (fun t => oget (gen_LogSinh_fwd loga logb xmax t)) x j /\ 0 < j) /\
  (forall loga logb xmax x1 x2, logsinh_params_ok loga logb xmax ->
     logsinh_guard loga logb xmax x1 = true -> x1 < x2 ->
     exists y1 y2, gen_LogSinh_fwd loga logb xmax x1 = Some y1 /\
                   gen_LogSinh_fwd loga logb xmax x2 = Some y2 /\ y1 < y2).
Proof. exact pyjac_LogSinh. Qed.
Print Assumptions PyTie_LogSinh_jacobian.

(* ---- Reciprocal ---- *)
Theorem PyTie_Reciprocal :
  (forall mininu nu x,
   gen_Reciprocal_fwd mininu nu x = recip_fwd nu x) /\
  (forall mininu nu y,
   gen_Reciprocal_bwd mininu nu y = recip_bwd nu y) /\
  (forall mininu nu x,
   gen_Reciprocal_jac mininu nu x = recip_jac nu x).
Proof. exact (conj pygen_Reciprocal_fwd (conj pygen_Reciprocal_bwd pygen_Reciprocal_jac)). Qed.
Print Assumptions PyTie_Reciprocal.

Theorem PyTie_Reciprocal_invertible : (forall mininu nu x, - nu < x ->
     exists y, gen_Reciprocal_fwd mininu nu x = Some y /\ gen_Reciprocal_bwd mininu nu y = Some x) /\
  (forall mininu nu y, y < 0 ->
     exists x, gen_Reciprocal_bwd mininu nu y = Some x /\ gen_Reciprocal_fwd mininu nu x = Some y).
Proof. exact pyinv_Reciprocal. Qed.
Print Assumptions PyTie_Reciprocal_invertible.

Theorem PyTie_Reciprocal_jacobian : (forall mininu nu x j, gen_Reciprocal_jac mininu nu x = Some j ->
     is_derive (fun t => oget (gen_Reciprocal_fwd mininu nu t)) x j /\ 0 < j) /\
  (forall mininu nu x1 x2, - nu < x1 -> x1 < x2 ->
     exists y1 y2, gen_Reciprocal_fwd mininu nu x1 = Some y1 /\
                   gen_Reciprocal_fwd mininu nu x2 = Some y2 /\ y1 < y2).
Proof. exact pyjac_Reciprocal. Qed.
Print Assumptions PyTie_Reciprocal_jacobian.

(* ---- Sinh ---- *)
Theorem PyTie_Sinh :
  (forall nu scale x,
   gen_Sinh_fwd nu scale x = sinh_fwd nu scale x) /\
  (forall nu scale y,
   gen_Sinh_bwd nu scale y = sinh_bwd nu scale y) /\
  (forall nu scale x,
   gen_Sinh_jac nu scale x = sinh_jac nu scale x).
Proof. exact (conj pygen_Sinh_fwd (conj pygen_Sinh_bwd pygen_Sinh_jac)). Qed.
Print Assumptions PyTie_Sinh.

Theorem PyTie_Sinh_invertible : (forall nu scale x, sinh_params_ok nu scale ->
     gen_Sinh_bwd nu scale (gen_Sinh_fwd nu scale x) = x) /\
  (forall nu scale y, sinh_params_ok nu scale ->
     gen_Sinh_fwd nu scale (gen_Sinh_bwd nu scale y) = y).
Proof. exact pyinv_Sinh. Qed.
Print Assumptions PyTie_Sinh_invertible.

Theorem PyTie_Sinh_jacobian : (forall nu scale x, sinh_params_ok nu scale ->
     is_derive (gen_Sinh_fwd nu scale) x (gen_Sinh_jac nu scale x) /\ 0 < gen_Sinh_jac nu scale x) /\
  (forall nu scale x1 x2, sinh_params_ok nu scale -> x1 < x2 ->
     gen_Sinh_fwd nu scale x1 < gen_Sinh_fwd nu scale x2).
Proof. exact pyjac_Sinh. Qed.
Print Assumptions PyTie_Sinh_jacobian.

(* ---- Manly ---- *)
Theorem PyTie_Manly :
  (forall lam xmax x,
   gen_Manly_fwd lam xmax x = manly_fwd lam xmax x) /\
  (forall lam xmax y,
   gen_Manly_bwd lam xmax y = manly_bwd lam xmax y) /\
  (forall lam xmax x,
   gen_Manly_jac lam xmax x = manly_jac lam xmax x).
Proof. exact (conj pygen_Manly_fwd (conj pygen_Manly_bwd pygen_Manly_jac)). Qed.
Print Assumptions PyTie_Manly.

Theorem PyTie_Manly_invertible : (forall lam xmax x, manly_params_ok lam xmax ->
     gen_Manly_bwd lam xmax (gen_Manly_fwd lam xmax x) = x) /\
  (forall lam xmax y, manly_params_ok lam xmax -> (EPS < Rabs lam -> 0 < 1 + lam * y) ->
     gen_Manly_fwd lam xmax (gen_Manly_bwd lam xmax y) = y).
Proof. exact pyinv_Manly. Qed.
Print Assumptions PyTie_Manly_invertible.

Theorem PyTie_Manly_jacobian : (forall lam xmax x, manly_params_ok lam xmax ->
     is_derive (gen_Manly_fwd lam xmax) x (gen_Manly_jac lam xmax x) /\ 0 < gen_Manly_jac lam xmax x) /\
  (forall lam xmax x1 x2, manly_params_ok lam xmax -> x1 < x2 ->
     gen_Manly_fwd lam xmax x1 < gen_Manly_fwd lam xmax x2).
Proof. exact pyjac_Manly. Qed.
Print Assumptions PyTie_Manly_jacobian.

(* ---- Softmax (generated for one row; all_rows / map lift it to the 2-D array) ---- *)
Theorem PyTie_Softmax :
  (forall x,
  gen_Softmax_fwd x = if softmax_row_ok x then Some (softmax_fwd_row x) else None) /\
  (forall y,
  gen_Softmax_bwd y = softmax_bwd_row y) /\
  (forall x,
  gen_Softmax_jac x = if softmax_row_ok x then Some (softmax_jac_row x) else None) /\
  (forall xs,
  all_rows gen_Softmax_fwd xs = softmax_fwd xs) /\
  (forall ys,
  map gen_Softmax_bwd ys = softmax_bwd ys) /\
  (forall xs,
  all_rows gen_Softmax_jac xs = softmax_jac xs).
Proof. exact (conj pygen_Softmax_fwd_row (conj pygen_Softmax_bwd_row (conj pygen_Softmax_jac_row (conj pygen_Softmax_fwd (conj pygen_Softmax_bwd pygen_Softmax_jac))))). Qed.
Print Assumptions PyTie_Softmax.

Theorem PyTie_Softmax_invertible : (forall xs, softmax_dom xs ->
     exists ys, all_rows gen_Softmax_fwd xs = Some ys /\ map gen_Softmax_bwd ys = xs) /\
  (forall y, gen_Softmax_fwd (gen_Softmax_bwd y) =
             if softmax_row_ok (gen_Softmax_bwd y) then Some y else None).
Proof. exact pyinv_Softmax. Qed.
Print Assumptions PyTie_Softmax_invertible.

Theorem PyTie_Softmax_jacobian : (forall x j, row_pos x -> rsum x <= 1 - EPS -> gen_Softmax_jac x = Some j -> 0 < j) /\
  (forall xs js, softmax_dom xs -> all_rows gen_Softmax_jac xs = Some js ->
     List.Forall (fun j => 0 < j) js).
Proof. exact pyjac_Softmax. Qed.
Print Assumptions PyTie_Softmax_jacobian.

