(* C04 - deterministic and categorical skill scores equal their definitions.
   Statements only; every proof is `exact <lemma of Proofs/Scores*Proofs.v>`.

   Reading guide.  [bias], [nse], [kge], [corr] are the models of the functions
   of stat/metrics.py (Model/Scores.v); [fwd] stands for trans.forward,
   [excl] for excludenull.  [RR] is the real-number instance, [N] any instance
   (binary64 included).  [meanR], [SS] (sum of squared deviations from the
   mean), [SE] (sum of squared errors), [sdR] (population standard deviation),
   [pearsonR] (sum of cross products / sqrt (SS x * SS y)), [biasR], [nseR],
   [kgeR] are the textbook definitions (Proofs/ScoresProofs.v,
   Proofs/ScoresRealProofs.v).  [EPS] is the constant of metrics.py. *)
From Coq Require Import ZArith Bool List Reals.
From Hy Require Import Base.Num Gen.Consts Gen.ConstsC04 Model.Scores
  Proofs.ScoresProofs Proofs.ScoresRealProofs Proofs.ScoresCatProofs Proofs.ScoresMissingProofs
  Proofs.ScoresSpearmanProofs Proofs.ScoresSummaryProofs.
Import ListNotations.
Open Scope R_scope.

(* ================================================================== *)
(* A. the glue: transform both series first, optionally drop incomplete *)
(*    pairs, then the closed form.  Any arithmetic instance.            *)

Theorem C04_bias_transform_first : forall {T} (N : NumOps T) eps nln fwd excl ty obs sim,
  bias N eps nln fwd excl ty obs sim =
  bias N eps nln idT excl ty (map fwd obs) (map fwd sim).
Proof. exact @bias_transform_first. Qed.
Print Assumptions C04_bias_transform_first.

Theorem C04_nse_transform_first : forall {T} (N : NumOps T) fwd excl obs sim,
  nse N fwd excl obs sim = nse N idT excl (map fwd obs) (map fwd sim).
Proof. exact @nse_transform_first. Qed.
Print Assumptions C04_nse_transform_first.

Theorem C04_kge_transform_first : forall {T} (N : NumOps T) eps fwd excl obs sim,
  kge N eps fwd excl obs sim = kge N eps idT excl (map fwd obs) (map fwd sim).
Proof. exact @kge_transform_first. Qed.
Print Assumptions C04_kge_transform_first.

(* corr selects its rows on the raw data: the law holds for a transform that
   keeps missing values missing and creates no new ones *)
Theorem C04_corr_transform_first : forall {T} (N : NumOps T) eps fwd excl st ty obs ens,
  (forall x, nisnan N (fwd x) = nisnan N x) ->
  corr N eps fwd excl st ty obs ens =
  corr N eps idT excl st ty (map fwd obs) (map (map fwd) ens).
Proof. exact @corr_transform_first. Qed.
Print Assumptions C04_corr_transform_first.

(* excludenull: the score is that of the series with the incomplete pairs removed;
   [with_excl] is the wrapper shared by bias, nse, kge and corr *)
Theorem C04_excludenull_is_pair_removal : forall {T} (N : NumOps T) core o s o' s',
  length o = length s -> nonull N o s = Some (o', s') ->
  with_excl N true core o s = with_excl N false core o' s'.
Proof. exact @excl_is_pair_removal. Qed.
Print Assumptions C04_excludenull_is_pair_removal.

(* ... where the kept pairs are exactly those with both members present, in order *)
Theorem C04_excludenull_keeps_complete_pairs : forall {T} (N : NumOps T) o s o' s',
  nonull N o s = Some (o', s') ->
  combine o' s' = filter (complete N) (combine o s) /\ length o' = length s' /\ o' <> [].
Proof. exact @nonull_spec. Qed.
Print Assumptions C04_excludenull_keeps_complete_pairs.

Theorem C04_excludenull_nothing_left : forall {T} (N : NumOps T) core o s,
  length o = length s -> filter (complete N) (combine o s) = [] ->
  with_excl N true core o s = SErr.
Proof. exact @api_excludenull_nothing_left. Qed.
Print Assumptions C04_excludenull_nothing_left.

Theorem C04_excludenull_idle_on_complete_data : forall {T} (N : NumOps T) core o s,
  length o = length s -> o <> [] ->
  forallb (fun x => negb (nisnan N x)) o = true ->
  forallb (fun x => negb (nisnan N x)) s = true ->
  with_excl N true core o s = with_excl N false core o s.
Proof. exact @excl_clean. Qed.
Print Assumptions C04_excludenull_idle_on_complete_data.

Theorem C04_shape_error : forall {T} (N : NumOps T) excl core o s,
  length o <> length s -> with_excl N excl core o s = SErr.
Proof. exact @excl_shape_error. Qed.
Print Assumptions C04_shape_error.

(* non-vacuity: a series with a missing value in each member *)
Example C04_excludenull_nonvacuous :
  nonull RN [Some 1; None; Some 3; Some 4] [Some 2; Some 5; None; Some 6]
  = Some ([Some 1; Some 4], [Some 2; Some 6]).
Proof. exact api_excludenull_nonvacuous. Qed.
Print Assumptions C04_excludenull_nonvacuous.

(* ================================================================== *)
(* B. numpy's reductions compute the textbook quantities (every length) *)

(* numpy's pairwise summation is the sum (every length); mean, variance, standard deviation *)
Theorem C04_numpy_reductions :
  (forall l, np_sum RR l = sumR l) /\
  (forall l,
  mean RR l = sumR l / lenR l /\
  var RR l = sumR (map (fun x => (x - meanR l) * (x - meanR l)) l) / lenR l /\
  std RR l = sqrt (SS l / lenR l)).
Proof. exact sum_numpy_reductions. Qed.
Print Assumptions C04_numpy_reductions.

(* np.corrcoef(x, y)[0, 1] is the textbook coefficient; it lies in [-1, 1] *)
Theorem C04_pearson_definition : forall x y,
  length x = length y -> 0 < SS x -> 0 < SS y ->
  pearson RR x y = SXY x y / sqrt (SS x * SS y) /\ -1 <= pearson RR x y <= 1.
Proof. exact api_pearson_definition. Qed.
Print Assumptions C04_pearson_definition.

(* ================================================================== *)
(* C. the scores equal their definitions on the transformed series      *)

(* bias: the three definitions on the transformed series; NaN when the observed mean is
   below EPS, or (log) when a mean is not above EPS *)
Theorem C04_bias_definition :
  (forall fwd excl ty obs sim,
  length obs = length sim -> obs <> [] ->
  bias_defined ty (map fwd obs) (map fwd sim) ->
  bias RR EPS ln fwd excl ty obs sim =
  SVal (let o := map fwd obs in let s := map fwd sim in
        match ty with
        | BStd => (meanR s - meanR o) / meanR o
        | BNorm => (meanR s - meanR o) / (meanR s + meanR o)
        | BLog => ln (meanR s) - ln (meanR o)
        end)) /\
  (forall ty o s,
  (Rabs (meanR o) < EPS -> bias_core RR EPS ln ty o s = SNan) /\
  (EPS <= Rabs (meanR o) -> meanR s <= EPS \/ meanR o <= EPS ->
   bias_core RR EPS ln BLog o s = SNan)).
Proof. exact sum_bias_definition. Qed.
Print Assumptions C04_bias_definition.

(* non-vacuity: obs = [1; 2; 4], sim = [2; 2; 5] meet every hypothesis used above
   (also as their own simulation, and scaled by 2) *)
Example C04_continuous_nonvacuous :
  (forall ty, bias_defined ty ex_obs ex_sim) /\
  (kge_defined ex_obs ex_sim) /\
  ((forall ty, bias_defined ty ex_obs ex_obs) /\ 0 < SS ex_obs /\ kge_defined ex_obs ex_obs) /\
  (kge_defined (scale 2 ex_obs) (scale 2 ex_sim) /\ forall ty, bias_defined ty (scale 2 ex_obs) (scale 2 ex_sim)).
Proof. exact sum_continuous_nonvacuous. Qed.
Print Assumptions C04_continuous_nonvacuous.

Theorem C04_nse_definition : forall fwd excl obs sim,
  length obs = length sim -> obs <> [] ->
  nse RR fwd excl obs sim =
  SVal (1 - SE (map fwd obs) (map fwd sim) / SS (map fwd obs)).
Proof. exact nse_R. Qed.
Print Assumptions C04_nse_definition.

(* kge: definition; NaN guards *)
Theorem C04_kge_definition :
  (forall fwd excl obs sim,
  length obs = length sim -> obs <> [] ->
  kge_defined (map fwd obs) (map fwd sim) ->
  kge RR EPS fwd excl obs sim =
  SVal (let o := map fwd obs in let s := map fwd sim in
        1 - sqrt ((1 - meanR s / meanR o) * (1 - meanR s / meanR o)
                  + (1 - sdR s / sdR o) * (1 - sdR s / sdR o)
                  + (1 - pearsonR o s) * (1 - pearsonR o s)))) /\
  (forall o s,
  Rabs (meanR o) < EPS \/ sdR o < EPS \/ sdR s <= EPS -> kge_core RR EPS o s = SNan).
Proof. exact sum_kge_definition. Qed.
Print Assumptions C04_kge_definition.

(* corr, Pearson type: one-member ensemble (mean or median statistic); mean statistic on
   ensembles of any size (no empty row); NaN guard *)
Theorem C04_corr_definition :
  (forall fwd excl st obs sim,
  length obs = length sim -> obs <> [] ->
  EPS <= sdR (map fwd obs) -> 0 < SS (map fwd sim) ->
  corr RR EPS fwd excl st CPearson obs (map (fun v => [v]) sim) =
  SVal (pearsonR (map fwd obs) (map fwd sim))) /\
  (forall fwd excl obs ens,
  length obs = length ens -> obs <> [] -> Forall (fun r => r <> []) ens ->
  EPS <= sdR (map fwd obs) -> 0 < SS (map (fun r => meanR (map fwd r)) ens) ->
  corr RR EPS fwd excl CMean CPearson obs ens =
  SVal (pearsonR (map fwd obs) (map (fun r => meanR (map fwd r)) ens))) /\
  (forall ty o s, sdR o < EPS -> corr_core RR EPS ty o s = SNan).
Proof. exact sum_corr_definition. Qed.
Print Assumptions C04_corr_definition.

(* ================================================================== *)
(* D. consequences                                                      *)

(* perfect simulation: bias 0, NSE 1, KGE 1, correlation 1 *)
Theorem C04_perfect_simulation :
  (forall fwd excl ty obs,
  obs <> [] -> bias_defined ty (map fwd obs) (map fwd obs) ->
  bias RR EPS ln fwd excl ty obs obs = SVal 0) /\
  (forall fwd excl obs,
  0 < SS (map fwd obs) -> nse RR fwd excl obs obs = SVal 1) /\
  (forall fwd excl obs,
  kge_defined (map fwd obs) (map fwd obs) -> kge RR EPS fwd excl obs obs = SVal 1) /\
  (forall fwd excl st obs,
  EPS <= sdR (map fwd obs) ->
  corr RR EPS fwd excl st CPearson obs (map (fun v => [v]) obs) = SVal 1).
Proof. exact sum_perfect_simulation. Qed.
Print Assumptions C04_perfect_simulation.

(* simulating the observed mean (of the transformed series) scores NSE 0 *)
Theorem C04_nse_mean_simulation : forall fwd excl obs sim,
  0 < SS (map fwd obs) ->
  map fwd sim = map (fun _ => meanR (map fwd obs)) (map fwd obs) ->
  nse RR fwd excl obs sim = SVal 0.
Proof. exact api_nse_mean_simulation. Qed.
Print Assumptions C04_nse_mean_simulation.

(* NSE and KGE never exceed 1 *)
Theorem C04_upper_bounds :
  (forall fwd excl obs sim,
  length obs = length sim -> 0 < SS (map fwd obs) ->
  exists v, nse RR fwd excl obs sim = SVal v /\ v <= 1) /\
  (forall fwd excl obs sim,
  length obs = length sim -> obs <> [] -> kge_defined (map fwd obs) (map fwd sim) ->
  exists v, kge RR EPS fwd excl obs sim = SVal v /\ v <= 1).
Proof. exact sum_upper_bounds. Qed.
Print Assumptions C04_upper_bounds.

(* NSE is invariant under a common affine map (a <> 0) of the transformed series; bias and
   KGE under a common positive scaling (both sides clear of the guards) *)
Theorem C04_invariances :
  (forall a b excl o s,
  a <> 0 -> length o = length s -> 0 < SS o ->
  nse RR idT excl (map (fun x => a * x + b) o) (map (fun x => a * x + b) s) =
  nse RR idT excl o s) /\
  (forall c excl ty o s,
  0 < c -> length o = length s -> o <> [] ->
  bias_defined ty o s -> bias_defined ty (scale c o) (scale c s) ->
  bias RR EPS ln idT excl ty (scale c o) (scale c s) = bias RR EPS ln idT excl ty o s) /\
  (forall c excl o s,
  0 < c -> length o = length s ->
  kge_defined o s -> kge_defined (scale c o) (scale c s) ->
  kge RR EPS idT excl (scale c o) (scale c s) = kge RR EPS idT excl o s).
Proof. exact sum_invariances. Qed.
Print Assumptions C04_invariances.

(* Spearman type (model of scipy.stats.spearmanr: Pearson correlation of the mid-ranks): on a
   one-member ensemble corr is the Spearman coefficient of the transformed series; a perfect
   simulation scores 1; the coefficient only depends on the order of the values *)
Theorem C04_corr_spearman :
  (forall fwd excl st obs sim,
     length obs = length sim -> obs <> [] -> EPS <= sdR (map fwd obs) ->
     corr RR EPS fwd excl st CSpearman obs (map (fun v => [v]) sim) =
     SVal (spearman RR (map fwd obs) (map fwd sim))) /\
  (forall fwd excl st obs,
     EPS <= sdR (map fwd obs) ->
     corr RR EPS fwd excl st CSpearman obs (map (fun v => [v]) obs) = SVal 1) /\
  (forall f g x y,
     (forall a b, a < b -> f a < f b) -> (forall a b, a < b -> g a < g b) ->
     spearman RR (map f x) (map g y) = spearman RR x y).
Proof. exact (conj corr_single_spearman_R (conj perfect_corr_spearman spearman_monotone)). Qed.
Print Assumptions C04_corr_spearman.

(* ================================================================== *)
(* D'. series with missing values ([RN]: option R, None plays NaN),     *)
(*     excludenull = True: the score is the real-number score of the    *)
(*     complete pairs of the transformed series                         *)

(* on complete data the [RN] computation is the [RR] computation, score by score *)
Theorem C04_complete_data_are_reals : forall eps ty o s,
  bias_core RN (Some eps) lnN ty (someL o) (someL s) = lift (bias_core RR eps ln ty o s) /\
  nse_core RN (someL o) (someL s) = lift (nse_core RR o s) /\
  kge_core RN (Some eps) (someL o) (someL s) = lift (kge_core RR eps o s) /\
  corr_core RN (Some eps) CPearson (someL o) (someL s) = lift (corr_core RR eps CPearson o s).
Proof.
  intros eps ty o s.
  exact (conj (bias_core_RN eps ty o s) (conj (nse_core_RN o s)
        (conj (kge_core_RN eps o s) (corr_core_pearson_RN eps o s)))).
Qed.
Print Assumptions C04_complete_data_are_reals.

Theorem C04_complete_pairs_are_numbers : forall o s o' s',
  nonull RN o s = Some (o', s') -> o' = someL (unsome o') /\ s' = someL (unsome s').
Proof. exact nonull_RN_reals. Qed.
Print Assumptions C04_complete_pairs_are_numbers.

(* excludenull = True on series with missing values: the real-number score of the complete pairs *)
Theorem C04_scores_with_missing :
  (forall fwd ty obs sim o' s',
  length obs = length sim ->
  nonull RN (map fwd obs) (map fwd sim) = Some (o', s') ->
  bias_defined ty (unsome o') (unsome s') ->
  bias RN (Some EPS) lnN fwd true ty obs sim = SVal (Some (biasR ty (unsome o') (unsome s')))) /\
  (forall fwd obs sim o' s',
  length obs = length sim ->
  nonull RN (map fwd obs) (map fwd sim) = Some (o', s') ->
  nse RN fwd true obs sim = SVal (Some (1 - SE (unsome o') (unsome s') / SS (unsome o')))) /\
  (forall fwd obs sim o' s',
  length obs = length sim ->
  nonull RN (map fwd obs) (map fwd sim) = Some (o', s') ->
  kge_defined (unsome o') (unsome s') ->
  kge RN (Some EPS) fwd true obs sim = SVal (Some (kgeR (unsome o') (unsome s')))).
Proof. exact sum_scores_with_missing. Qed.
Print Assumptions C04_scores_with_missing.

(* non-vacuity: a missing value in each member; the complete pairs are the example above *)
Example C04_missing_nonvacuous :
  nonull RN (map idT [Some 1; None; Some 2; Some 7; Some 4])
            (map idT [Some 2; Some 9; Some 2; None; Some 5]) = Some (someL ex_obs, someL ex_sim) /\
  unsome (someL ex_obs) = ex_obs /\ unsome (someL ex_sim) = ex_sim.
Proof. exact (conj ex_missing_nonull ex_missing_unsome). Qed.
Print Assumptions C04_missing_nonvacuous.

(* ================================================================== *)
(* E. confusion matrix                                                  *)
Open Scope Z_scope.

(* categories in 0..n-1, n given or inferred (largest category + 1): the table
   is n x n with labels 0..n-1 *)
Theorem C04_confusion_table : forall ncat obs sim n,
  length obs = length sim ->
  (ncat = Some n \/ (ncat = None /\ n = ncat_fix (sort_u obs) (sort_u sim))) ->
  (forall x, In x obs \/ In x sim -> 0 <= x < n) ->
  confusion ncat obs sim =
  Some (mkCT (zrange n) (zrange n) (table (zrange n) (zrange n) obs sim)).
Proof. exact confusion_spec. Qed.
Print Assumptions C04_confusion_table.

(* inferred size: every series of non-negative categories is covered *)
Theorem C04_confusion_inferred : forall obs sim,
  length obs = length sim ->
  (forall x, In x obs \/ In x sim -> 0 <= x) ->
  let n := ncat_fix (sort_u obs) (sort_u sim) in
  confusion None obs sim =
  Some (mkCT (zrange n) (zrange n) (table (zrange n) (zrange n) obs sim)).
Proof. exact confusion_inferred. Qed.
Print Assumptions C04_confusion_inferred.

(* cell (i, j) is the number of positions with (obs, sim) = (i, j); n rows of n cells *)
Theorem C04_confusion_cells :
  (forall n obs sim i j,
  0 <= i < n -> 0 <= j < n ->
  nth (Z.to_nat j) (nth (Z.to_nat i) (table (zrange n) (zrange n) obs sim) []) 0 =
  Z.of_nat (length (filter (fun p => (fst p =? i) && (snd p =? j)) (combine obs sim)))) /\
  (forall n obs sim, 0 <= n ->
  length (table (zrange n) (zrange n) obs sim) = Z.to_nat n /\
  Forall (fun r => length r = Z.to_nat n) (table (zrange n) (zrange n) obs sim)).
Proof. exact sum_confusion_cells. Qed.
Print Assumptions C04_confusion_cells.

(* every pair is counted exactly once: the cells sum to the length *)
Theorem C04_confusion_total : forall ncat obs sim n t,
  length obs = length sim ->
  (ncat = Some n \/ (ncat = None /\ n = ncat_fix (sort_u obs) (sort_u sim))) ->
  (forall x, In x obs \/ In x sim -> 0 <= x < n) ->
  confusion ncat obs sim = Some t -> table_total t = Z.of_nat (length obs).
Proof. exact confusion_total. Qed.
Print Assumptions C04_confusion_total.

Example C04_confusion_nonvacuous :
  confusion None [0; 2; 2; 0] [0; 0; 0; 0] =
  Some (mkCT [0; 1; 2] [0; 1; 2] [[2; 0; 0]; [0; 0; 0]; [2; 0; 0]]).
Proof. exact confusion_fixed_example. Qed.
Print Assumptions C04_confusion_nonvacuous.

Theorem C04_confusion_shape_error : forall infer ncat obs sim,
  length obs <> length sim -> confusion_gen infer ncat obs sim = None.
Proof. exact confusion_shape_error. Qed.
Print Assumptions C04_confusion_shape_error.

(* the pinned inference (number of distinct categories) loses pairs *)
Theorem C04_confusion_old_refuted :
  exists obs sim t, length obs = length sim /\ (forall x, In x obs \/ In x sim -> 0 <= x) /\
    confusion_old None obs sim = Some t /\ table_total t <> Z.of_nat (length obs).
Proof. exact confusion_old_refuted. Qed.
Print Assumptions C04_confusion_old_refuted.

Close Scope Z_scope.

(* ================================================================== *)
(* F. binary scores: every table with four positive counts              *)

Theorem C04_binary_scores : forall tn fp fn tp,
  (0 < tn)%Z -> (0 < fp)%Z -> (0 < fn)%Z -> (0 < tp)%Z ->
  let a := IZR tp in let b := IZR fp in let c := IZR fn in let d := IZR tn in
  exists s, binary RR ln tn fp fn tp = BOk s /\
    b_hit s = a / (a + c) /\ b_fa s = b / (d + b) /\ b_prec s = a / (a + b) /\
    b_acc s = (a + d) / (a + c + (d + b)) /\ b_bias s = (a + b) / (a + c) /\
    b_f1 s = (2 * a) / (2 * a + b + c) /\
    b_f1 s = 2 * (b_hit s * b_prec s) / (b_hit s + b_prec s) /\
    b_mcc s = (a * d - b * c) / sqrt ((a + b) * (a + c) * (d + b) * (d + c)) /\
    b_lor s = ln ((a * d) / (b * c)) /\
    b_orss s = (a * d - b * c) / (a * d + b * c).
Proof. exact binary_fields. Qed.
Print Assumptions C04_binary_scores.

Theorem C04_binary_ranges : forall tn fp fn tp,
  (0 < tn)%Z -> (0 < fp)%Z -> (0 < fn)%Z -> (0 < tp)%Z ->
  exists s, binary RR ln tn fp fn tp = BOk s /\
    0 < b_hit s < 1 /\ 0 < b_fa s < 1 /\ 0 < b_prec s < 1 /\ 0 < b_acc s < 1 /\
    0 < b_f1 s < 1 /\ b_mcc s * b_mcc s <= 1 /\ -1 < b_orss s < 1.
Proof. exact binary_ranges. Qed.
Print Assumptions C04_binary_ranges.

(* log odds ratio and odds-ratio skill score have the sign of TP*TN - FP*FN *)
Theorem C04_binary_signs : forall tn fp fn tp,
  (0 < tn)%Z -> (0 < fp)%Z -> (0 < fn)%Z -> (0 < tp)%Z ->
  exists s, binary RR ln tn fp fn tp = BOk s /\
    (0 < b_lor s <-> (fp * fn < tp * tn)%Z) /\ (0 < b_orss s <-> (fp * fn < tp * tn)%Z) /\
    (b_lor s = 0 <-> (fp * fn = tp * tn)%Z) /\ (b_orss s = 0 <-> (fp * fn = tp * tn)%Z).
Proof. exact binary_signs. Qed.
Print Assumptions C04_binary_signs.

Example C04_binary_nonvacuous : (0 < 50 /\ 0 < 5 /\ 0 < 4 /\ 0 < 30)%Z.
Proof. exact bin_example_pos. Qed.
Print Assumptions C04_binary_nonvacuous.

(* the pinned guard `theta > -1 and theta < 1` rejects every odds ratio >= 1 ... *)
Theorem C04_orss_old_guard_rejects : forall tn fp fn tp,
  (0 < tn)%Z -> (0 < fp)%Z -> (0 < fn)%Z -> (0 < tp)%Z ->
  IZR fp * IZR fn <= IZR tp * IZR tn ->
  guard_ok RR ORSS_GUARD_OLD (hit_rate RR fn tp) (false_alarm RR tn fp)
           (odds_theta RR (hit_rate RR fn tp) (false_alarm RR tn fp)) = false.
Proof. exact orss_guard_old_rejects. Qed.
Print Assumptions C04_orss_old_guard_rejects.

(* ... e.g. [[50, 5], [4, 30]] on the executable binary64 instance of the pinned code *)
Theorem C04_orss_old_refuted :
  match binary_old F64 f_ln 50 5 4 30 with
  | BOk s => PrimFloat.is_nan (b_orss s) = true
  | BErr => False
  end.
Proof. exact orss_old_refuted_f64. Qed.
Print Assumptions C04_orss_old_refuted.

(* the pinned int64 product of the four margins overflows: binary raises *)
Theorem C04_mcc_old_refuted :
  exists tn fp fn tp, (0 < tn /\ 0 < fp /\ 0 < fn /\ 0 < tp)%Z /\
    forall T (N : NumOps T) (nln : T -> T), binary_old N nln tn fp fn tp = BErr.
Proof. exact mcc_old_refuted. Qed.
Print Assumptions C04_mcc_old_refuted.

(* ================================================================== *)
(* G. ties to the source text (regenerated into Gen/ConstsC04.v)        *)
(* the guards of LOR and ORSS used by [binary] above are the extracted  *)
(* ones; the option names and output names the model covers exist       *)
From Coq Require Import String.
Open Scope string_scope.
Theorem C04_source_ties :
  forallb (has BIAS_TYPES) ["standard"; "normalised"; "log"] = true /\
  forallb (has CORR_STATS) ["mean"; "median"] = true /\
  forallb (has CORR_TYPES) ["Pearson"; "Spearman"] = true /\
  forallb (has BINARY_KEYS) ["bias"; "hitrate"; "precision"; "falsealarm"; "accuracy"; "F1";
                             "MCC"; "LOR"; "ORSS"; "EDS"] = true /\
  BINARY_SHAPE = [2%Z; 2%Z].
Proof. exact source_ties. Qed.
Print Assumptions C04_source_ties.
