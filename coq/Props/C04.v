From Coq Require Import ZArith Bool List Reals.
From Hy Require Import Base.Num Gen.Consts Gen.ConstsC04 Model.Scores Proofs.ScoresProofs.
Theorem C04_placeholder : True. Proof. exact placeholder_c04. Qed.
Print Assumptions C04_placeholder.
