(* C03 - the CRPS returned by hydrodiy.stat.metrics.crps equals its definition
   and its decomposition is exact.
   Statements only; every proof is `exact <lemma of Proofs/Crps*.v>`.

   Vocabulary (Model/Crps.v, Proofs/Crps*.v):
     crps N rows            the wrapper + kernel (row filter, sort, bins, final loop),
                            rows = list of (observation, ensemble members)
     wfrows m rows          n >= 1 forecasts, each with the same number m >= 1 of members
     absdev y e             sum_k |x_k - y|
     dsum e                 sum_k sum_l |x_l - x_k|
     crps_def_row (y,e)     absdev y e / m - dsum e / (2 m^2)  =  E|X-y| - 1/2 E|X-X'|
     crps_def rows          mean over the forecasts of crps_def_row
     climatology rows       every forecast replaced by the whole set of observations
   All theorems are over the real-number instance RR and hold for EVERY n >= 1,
   EVERY m >= 1, every tie pattern; those about missing observations hold for
   every arithmetic instance (binary64 included). *)
From Coq Require Import ZArith Bool List Reals Permutation String.
From Hy Require Import Base.Num Gen.ConstsC03 Model.Crps
  Proofs.CrpsSort Proofs.CrpsProofs Proofs.CrpsDefProofs Proofs.CrpsInvProofs
  Proofs.CrpsMain Proofs.CrpsWitness Proofs.CrpsHom.
Import ListNotations.
Open Scope R_scope.

(* well-formed input never raises (in particular the kernel's EDOM test never fires) *)
Theorem C03_defined : forall m rows,
  wfrows m rows -> exists out, crps RR rows = Some out.
Proof. exact main_defined. Qed.
Print Assumptions C03_defined.

(* the hypotheses are satisfiable: three forecasts, three members, ties between
   members and between a member and the observation *)
Example C03_nonvacuous : wfrows 3 [(1, [2; 1; 1]); (0, [1; 3; 2]); (5, [4; 4; 0])].
Proof. exact example_wf. Qed.
Print Assumptions C03_nonvacuous.

(* crps = mean over forecasts of E|X-y| - 0.5 E|X-X'| (every ensemble size) *)
Theorem C03_crps_is_definition : forall m rows out,
  wfrows m rows -> crps RR rows = Some out ->
  o_crps out = crps_def rows.
Proof. exact main_crps_is_definition. Qed.
Print Assumptions C03_crps_is_definition.

(* one member: the mean absolute error *)
Theorem C03_single_member_is_mae : forall rows out,
  wfrows 1 rows -> crps RR rows = Some out ->
  o_crps out = Rsum (map (fun r => Rabs (hd 0 (snd r) - fst r)) rows) / INR (List.length rows).
Proof. exact main_single_member. Qed.
Print Assumptions C03_single_member_is_mae.

Example C03_single_member_nonvacuous : wfrows 1 [(1, [3]); (2, [2])].
Proof. exact example_single_wf. Qed.
Print Assumptions C03_single_member_nonvacuous.

(* the decomposition *)
Theorem C03_crps_reli_pot : forall m rows out,
  wfrows m rows -> crps RR rows = Some out ->
  o_crps out = o_reli out + o_pot out.
Proof. exact main_crps_reli_pot. Qed.
Print Assumptions C03_crps_reli_pot.

Theorem C03_resolution : forall m rows out,
  wfrows m rows -> crps RR rows = Some out ->
  o_resol out = o_unc out - o_pot out.
Proof. exact main_resolution. Qed.
Print Assumptions C03_resolution.

Theorem C03_nonneg : forall m rows out,
  wfrows m rows -> crps RR rows = Some out ->
  0 <= o_reli out /\ 0 <= o_pot out /\ 0 <= o_unc out.
Proof. exact main_nonneg. Qed.
Print Assumptions C03_nonneg.

Theorem C03_crps_nonneg : forall m rows out,
  wfrows m rows -> crps RR rows = Some out -> 0 <= o_crps out.
Proof. exact main_crps_nonneg. Qed.
Print Assumptions C03_crps_nonneg.

(* the identity holds bin by bin in the (m+1)-row table, each row with g > 0
   contributing non-negative reliability and potential terms *)
Theorem C03_table_rows : forall m rows out,
  wfrows m rows -> crps RR rows = Some out ->
  List.length (o_table out) = S m /\
  Forall (fun r => crps_term RR r = g_r r + g_c r /\ 0 <= g_r r /\ 0 <= g_c r) (o_table out).
Proof. exact main_table_rows. Qed.
Print Assumptions C03_table_rows.

(* in every table row that counts (g > 0) the "rank" column is a frequency in
   [0,1]; the interior rows satisfy Hersbach's a = g (1 - o), b = g o *)
Theorem C03_table_frequencies : forall m rows out,
  wfrows m rows -> crps RR rows = Some out ->
  Forall (fun r => 0 < t_g r -> 0 <= t_o r <= 1) (o_table out) /\
  Forall (fun r => 0 < t_g r -> t_a r = t_g r * (1 - t_o r) /\ t_b r = t_g r * t_o r)
         (removelast (tl (o_table out))).
Proof. exact main_table_frequencies. Qed.
Print Assumptions C03_table_frequencies.

(* uncertainty = CRPS of the observed climatology: by the definition ... *)
Theorem C03_uncertainty_is_climatology_crps : forall m rows out,
  wfrows m rows -> crps RR rows = Some out ->
  o_unc out = crps_def (climatology rows).
Proof. exact main_uncertainty_climatology. Qed.
Print Assumptions C03_uncertainty_is_climatology_crps.

(* ... and as what the same code returns for the climatological ensemble *)
Theorem C03_uncertainty_is_kernel_crps_of_climatology : forall m rows out,
  wfrows m rows -> crps RR rows = Some out ->
  exists outc, crps RR (climatology rows) = Some outc /\ o_unc out = o_crps outc.
Proof. exact main_uncertainty_kernel. Qed.
Print Assumptions C03_uncertainty_is_kernel_crps_of_climatology.

(* order of the members of each forecast: the whole output (5 numbers, table) is unchanged *)
Theorem C03_member_order : forall m rows rows',
  wfrows m rows ->
  Forall2 (fun r r' => fst r = fst r' /\ Permutation (snd r) (snd r')) rows rows' ->
  crps RR rows = crps RR rows'.
Proof. exact (crps_member_order true). Qed.
Print Assumptions C03_member_order.

Example C03_member_order_nonvacuous :
  Forall2 (fun r r' : R * list R => fst r = fst r' /\ Permutation (snd r) (snd r'))
    [(1, [2; 1; 1]); (0, [1; 3; 2]); (5, [4; 4; 0])]
    [(1, [1; 2; 1]); (0, [3; 2; 1]); (5, [0; 4; 4])].
Proof. exact example_members. Qed.
Print Assumptions C03_member_order_nonvacuous.

(* order of the forecasts *)
Theorem C03_forecast_order : forall m rows rows',
  wfrows m rows -> Permutation rows rows' -> crps RR rows = crps RR rows'.
Proof. exact (crps_forecast_order true). Qed.
Print Assumptions C03_forecast_order.

Example C03_forecast_order_nonvacuous :
  Permutation [(1, [2; 1; 1]); (0, [1; 3; 2]); (5, [4; 4; 0])]
              [(5, [4; 4; 0]); (1, [2; 1; 1]); (0, [1; 3; 2])].
Proof. exact example_perm. Qed.
Print Assumptions C03_forecast_order_nonvacuous.

(* a constant added to observations and members *)
Theorem C03_shift : forall m rows d,
  wfrows m rows ->
  crps RR (map (fun r => (fst r + d, map (fun x => x + d) (snd r))) rows) = crps RR rows.
Proof. intros m rows d; exact (crps_shift true m rows d). Qed.
Print Assumptions C03_shift.

(* a positive factor: the five numbers and the columns a, b, g, reliability,
   potential of the table are multiplied by it; frequencies and ranks are unchanged *)
Theorem C03_scale : forall m rows k,
  wfrows m rows -> 0 < k ->
  crps RR (map (fun r => (k * fst r, map (fun x => k * x) (snd r))) rows) =
  option_map (fun o =>
    mkCrout (k * o_crps o) (k * o_reli o) (k * o_resol o) (k * o_unc o) (k * o_pot o)
            (map (fun r => mkTrow (t_p r) (k * t_a r) (k * t_b r) (k * t_g r) (t_o r)
                                  (k * t_r r) (k * t_c r)) (o_table o)))
    (crps RR rows).
Proof. intros m rows k; exact (crps_scale true m rows k). Qed.
Print Assumptions C03_scale.

(* forecasts whose observation is missing are ignored: every arithmetic instance *)
Theorem C03_missing_observation_ignored : forall {T} (N : NumOps T) rows1 y e rows2,
  nisnan N y = true ->
  crps N (rows1 ++ (y, e) :: rows2) = crps N (rows1 ++ rows2).
Proof. intros T N; exact (crps_missing_obs N true). Qed.
Print Assumptions C03_missing_observation_ignored.

Theorem C03_only_valid_rows_count : forall {T} (N : NumOps T) rows,
  crps N rows = crps N (filter (row_valid N) rows).
Proof. intros T N; exact (crps_filter N true). Qed.
Print Assumptions C03_only_valid_rows_count.

(* With an explicit missing value ([RN]: [None] plays NaN, arithmetic propagates
   it, comparisons with it are false): on data whose observations may be missing
   the code returns exactly the real-number result on the forecasts that have an
   observation ([with_obs] drops the others; [hout Some] injects every number of
   the output), so every theorem above applies to it. *)
Theorem C03_missing_observations_are_dropped : forall rows : list (option R * list R),
  crps RN (map (fun r => (fst r, map Some (snd r))) rows) =
  option_map (hout Some) (crps RR (with_obs rows)).
Proof. exact (crps_with_missing_obs true). Qed.
Print Assumptions C03_missing_observations_are_dropped.

(* error branch: no observation at all raises *)
Theorem C03_no_valid_data : forall {T} (N : NumOps T) rows,
  Forall (fun r => nisnan N (fst r) = true) rows -> crps N rows = None.
Proof. intros T N; exact (crps_all_missing N true). Qed.
Print Assumptions C03_no_valid_data.

(* the constants the model depends on, re-extracted from the source on every run:
   labels of the returned Series/DataFrame, table width in metrics.py and in
   c_crps.c, use_weights = 0 and is_sorted = 0 passed by the wrapper *)
Theorem C03_source_constants :
  CRPS_DECOMPOS_NAMES = ["crps"; "reliability"; "resolution"; "uncertainty"; "potential"]%string /\
  CRPS_TABLE_NAMES = ["freq"; "a"; "b"; "g"; "rank"; "reliability"; "crps_potential"]%string /\
  CRPS_TABLE_NCOL_PY = CRPS_TABLE_NCOL_C /\ CRPS_TABLE_NCOL_C = 7%Z /\
  (CRPS_DECOMPOS_MAXIDX_C < CRPS_NDECOMPOS_PY)%Z /\
  CRPS_USE_WEIGHTS = 0%Z /\ CRPS_IS_SORTED = 0%Z.
Proof. exact main_labels. Qed.
Print Assumptions C03_source_constants.

(* Over the reals the kernel of the pinned commit and the repaired kernel agree
   (the outlier frequencies never exceed 1 there) ... *)
Theorem C03_pinned_same_over_reals : forall m rows,
  wfrows m rows -> crps_pinned RR rows = crps RR rows.
Proof. exact main_pinned_same_over_R. Qed.
Print Assumptions C03_pinned_same_over_reals.

(* ... but in binary64 the pinned kernel returns a negative potential CRPS
   (nine forecasts, every observation below its ensemble: nine copies of 1/9
   add up to 1 + 2^-52).  Witness computed on the F64 instance of the model;
   the harness replays it on the real code. *)
Theorem C03_pinned_potential_nonneg_binary64_refuted :
  exists rows : list (PrimFloat.float * list PrimFloat.float),
    match crps_pinned F64 rows with
    | Some out => PrimFloat.ltb (o_pot out) PrimFloat.zero
    | None => false
    end = true.
Proof. exact pinned_potential_negative. Qed.
Print Assumptions C03_pinned_potential_nonneg_binary64_refuted.

(* the repaired kernel on the same input *)
Example C03_repaired_on_witness :
  (* witness_rows = repeat (0, [1; 2]) 9 *)
  match crps F64 witness_rows with
  | Some out => PrimFloat.leb PrimFloat.zero (o_pot out)
  | None => false
  end = true.
Proof. exact repaired_potential_on_witness. Qed.
Print Assumptions C03_repaired_on_witness.

(* ================================================================== *)
(* The CRPS kernel on the REGENERATED program (MiniC translation of   *)
(* src/hydrodiy/stat/c_crps.c, Gen/KernelsAst.v; qsort = glibc's merge *)
(* sort with the translated comparator).                              *)
(* ================================================================== *)
From Coq Require Import String Lia PrimFloat.
From Hy Require Import Base.Num Base.MiniC Gen.KernelsAst Gen.Consts Gen.ConstsC03 Model.Crps.
From Hy Require Proofs.RefineCrps.
Import ListNotations.
Open Scope string_scope.
Open Scope list_scope.
Open Scope Z_scope.

(* c_crps = the model with the kernel's own sort (crps_with), any arithmetic instance satisfying lits_ok (binary64, reals, reals with NaN), ALL data (NaN members included): decomposition and reliability table on success, a positive code and untouched outputs on the EDOM return *)
Theorem C03_kernel_crps_refines_model_with_kernel_sort :
  forall (T : Type) (N : NumOps T) (X : NumLit T) (uw isrt : Z) (v : list (T * list T))
         (m : nat) (wv rt0 : list T) (n : nat),
       RefineCrps.lits_ok N X ->
       uw <> 1 ->
       v <> [] ->
       (0 < m)%nat ->
       Forall (fun r : T * list T => Datatypes.length (snd r) = m) v ->
       Datatypes.length rt0 = (7 * S m)%nat ->
       (Nat.max (Datatypes.length v) (S m) < n)%nat ->
       match RefineCrps.crps_with N isrt v with
       | Some out =>
           exec_fun N X program (S n) "c_crps" (RefineCrps.crps_args N uw isrt v m wv rt0) =
           Ok
             (RI 0,
              [VArrF (map fst v); VArrF (List.concat (map snd v)); VArrF wv;
               VArrF (RefineCrps.table_vals (o_table out)); VArrF (RefineCrps.dec_vals out)])
       | None =>
           exists code : Z,
             0 < code /\
             exec_fun N X program (S n) "c_crps" (RefineCrps.crps_args N uw isrt v m wv rt0) =
             Ok
               (RI code,
                [VArrF (map fst v); VArrF (List.concat (map snd v)); VArrF wv; 
                 VArrF rt0; VArrF [n0 N; n0 N; n0 N; n0 N; n0 N]])
       end.
Proof. exact @RefineCrps.refine_c_crps_all. Qed.
Print Assumptions C03_kernel_crps_refines_model_with_kernel_sort.

(* ... = the model [crps] of the theorems above when no ensemble member is NaN and the comparisons form a total preorder (ord_laws; proved for the reals and the reals with NaN) *)
Theorem C03_kernel_crps_refines_model :
  forall (T : Type) (N : NumOps T) (X : NumLit T) (rows : list (T * list T)) 
         (m : nat) (wv rt0 : list T) (n : nat),
       RefineCrps.lits_ok N X ->
       RefineCrps.ord_laws N (RefineCrps.notnan N) ->
       let v := filter (row_valid N) rows in
       v <> [] ->
       Forall (fun r : T * list T => Datatypes.length (snd r) = m) v ->
       Forall (fun r : T * list T => Forall (RefineCrps.notnan N) (snd r)) v ->
       Datatypes.length rt0 = (7 * S m)%nat ->
       (Nat.max (Datatypes.length v) (S m) < n)%nat ->
       match crps N rows with
       | Some out =>
           exec_fun N X program (S n) "c_crps"
             (RefineCrps.crps_args N CRPS_USE_WEIGHTS CRPS_IS_SORTED v m wv rt0) =
           Ok
             (RI 0,
              [VArrF (map fst v); VArrF (List.concat (map snd v)); VArrF wv;
               VArrF (RefineCrps.table_vals (o_table out)); VArrF (RefineCrps.dec_vals out)])
       | None =>
           exists code : Z,
             0 < code /\
             exec_fun N X program (S n) "c_crps"
               (RefineCrps.crps_args N CRPS_USE_WEIGHTS CRPS_IS_SORTED v m wv rt0) =
             Ok
               (RI code,
                [VArrF (map fst v); VArrF (List.concat (map snd v)); VArrF wv; 
                 VArrF rt0; VArrF [n0 N; n0 N; n0 N; n0 N; n0 N]])
       end.
Proof. exact @RefineCrps.refine_c_crps. Qed.
Print Assumptions C03_kernel_crps_refines_model.

(* over the reals: no hypothesis on the data; the kernel never takes its error return *)
Theorem C03_kernel_crps_refines_model_reals :
  forall (rows : list (R * list R)) (m : nat) (wv rt0 : list R) (n : nat),
       let v := filter (row_valid RR) rows in
       v <> [] ->
       Forall (fun r : R * list R => Datatypes.length (snd r) = m) v ->
       Datatypes.length rt0 = (7 * S m)%nat ->
       (Nat.max (Datatypes.length v) (S m) < n)%nat ->
       exists out : crout,
         crps RR rows = Some out /\
         exec_fun RR XRR program (S n) "c_crps"
           (RefineCrps.crps_args RR CRPS_USE_WEIGHTS CRPS_IS_SORTED v m wv rt0) =
         Ok
           (RI 0,
            [VArrF (map fst v); VArrF (List.concat (map snd v)); VArrF wv;
             VArrF (RefineCrps.table_vals (o_table out)); VArrF (RefineCrps.dec_vals out)]).
Proof. exact @RefineCrps.refine_c_crps_RR. Qed.
Print Assumptions C03_kernel_crps_refines_model_reals.

(* the qsort comparator, NaN included *)
Theorem C03_kernel_compare :
  forall (T : Type) (N : NumOps T) (X : NumLit T) (n : nat) (a b : T),
       exec_fun N X program (S n) "c_crps.compare" [AVArrF [a]; AVArrF [b]] =
       Ok (RI (RefineCrps.cmpz N a b), [VArrF [a]; VArrF [b]]).
Proof. exact @RefineCrps.compare_run. Qed.
Print Assumptions C03_kernel_compare.

(* an ensemble with a NaN member (admitted by the wrapper as soon as one member is not NaN) is left unsorted by the comparator: binary64 witness where kernel and model differ (outside C03, which quantifies over finite values) *)
Theorem C03_kernel_nan_member_not_sorted :
  let rows := [(2%float, [3%float; nan; 1%float])] in
       filter (row_valid F64) rows = rows /\
       RefineCrps.ksort F64 [3%float; nan; 1%float] = [3%float; nan; 1%float] /\
       sort F64 [3%float; nan; 1%float] = [1%float; nan; 3%float] /\
       (exists (t : list float) (d0 d2 d3 d4 : float),
          exec_fun F64 XF64 program 20 "c_crps"
            (RefineCrps.crps_args F64 CRPS_USE_WEIGHTS CRPS_IS_SORTED rows 3 [0%float]
               (repeat 0%float 28)) =
          Ok
            (RI 0,
             [VArrF [2%float]; VArrF [3%float; nan; 1%float]; VArrF [0%float]; 
              VArrF t; VArrF [d0; 2%float; d2; d3; d4]])) /\
       (exists out : crout, crps F64 rows = Some out /\ o_reli out = 0%float).
Proof. exact @RefineCrps.finding_nan_member. Qed.
Print Assumptions C03_kernel_nan_member_not_sorted.

(* ================================================================== *)
(* BINARY64: the laws about comparisons that the refinement theorem needs *)
(* are proved for IEEE binary64 (Coq primitive floats, FloatAxioms of the *)
(* standard library): the refinement holds of the arithmetic the compiled *)
(* kernel really uses.                                                *)
(* ================================================================== *)
From Coq Require Import String Lia PrimFloat.
From Hy Require Import Base.Num Base.MiniC Gen.KernelsAst Gen.Consts Gen.ConstsC03 Model.Crps.
From Hy Require Proofs.F64Laws Proofs.RefineCrps.
Import ListNotations.
Open Scope string_scope.
Open Scope list_scope.
Open Scope Z_scope.

(* on non-NaN binary64 numbers (both zeros, both infinities included) <= is total and transitive and < is its strict part *)
Theorem C03_kernel_binary64_comparisons_are_a_total_preorder :
  RefineCrps.ord_laws F64 (RefineCrps.notnan F64).
Proof. exact @F64Laws.ord_laws_F64. Qed.
Print Assumptions C03_kernel_binary64_comparisons_are_a_total_preorder.

(* c_crps = the model in binary64, whenever no ensemble member is NaN *)
Theorem C03_kernel_crps_refines_model_binary64 :
  forall (rows : list (float * list float)) (m : nat) (wv rt0 : list float) (n : nat),
       let v := filter (row_valid F64) rows in
       v <> [] ->
       Forall (fun r : float * list float => Datatypes.length (snd r) = m) v ->
       Forall (fun r : float * list float => Forall (RefineCrps.notnan F64) (snd r)) v ->
       Datatypes.length rt0 = (7 * S m)%nat ->
       (Nat.max (Datatypes.length v) (S m) < n)%nat ->
       match crps F64 rows with
       | Some out =>
           exec_fun F64 XF64 program (S n) "c_crps"
             (RefineCrps.crps_args F64 CRPS_USE_WEIGHTS CRPS_IS_SORTED v m wv rt0) =
           Ok
             (RI 0,
              [VArrF (map fst v); VArrF (List.concat (map snd v)); VArrF wv;
               VArrF (RefineCrps.table_vals (o_table out)); VArrF (RefineCrps.dec_vals out)])
       | None =>
           exists code : Z,
             0 < code /\
             exec_fun F64 XF64 program (S n) "c_crps"
               (RefineCrps.crps_args F64 CRPS_USE_WEIGHTS CRPS_IS_SORTED v m wv rt0) =
             Ok
               (RI code,
                [VArrF (map fst v); VArrF (List.concat (map snd v)); VArrF wv; 
                 VArrF rt0; VArrF [n0 F64; n0 F64; n0 F64; n0 F64; n0 F64]])
       end.
Proof. exact @F64Laws.refine_c_crps_F64. Qed.
Print Assumptions C03_kernel_crps_refines_model_binary64.

Theorem C03_kernel_crps_never_fails_binary64 :
  forall (rows : list (float * list float)) (m : nat) (wv rt0 : list float) (n : nat),
       let v := filter (row_valid F64) rows in
       v <> [] ->
       Forall (fun r : float * list float => Datatypes.length (snd r) = m) v ->
       Forall (fun r : float * list float => Forall (RefineCrps.notnan F64) (snd r)) v ->
       Datatypes.length rt0 = (7 * S m)%nat ->
       (Nat.max (Datatypes.length v) (S m) < n)%nat ->
       exists out : crout,
         crps F64 rows = Some out /\
         exec_fun F64 XF64 program (S n) "c_crps"
           (RefineCrps.crps_args F64 CRPS_USE_WEIGHTS CRPS_IS_SORTED v m wv rt0) =
         Ok
           (RI 0,
            [VArrF (map fst v); VArrF (List.concat (map snd v)); VArrF wv;
             VArrF (RefineCrps.table_vals (o_table out)); VArrF (RefineCrps.dec_vals out)]).
Proof. exact @F64Laws.refine_c_crps_ok_F64. Qed.
Print Assumptions C03_kernel_crps_never_fails_binary64.

(* ================================================================== *)
(* C03 ITSELF on the regenerated program: the property theorems above *)
(* transported to exec_fun RR XRR program "c_crps" (Proofs/KernelCrps.v). *)
(* ================================================================== *)
From Coq Require Import String Lia PrimFloat.
From Hy Require Import Base.Num Base.MiniC Gen.KernelsAst Gen.Consts Gen.ConstsC03 Model.Crps.
From Hy Require Proofs.KernelCrps.
Import ListNotations.
Open Scope string_scope.
Open Scope list_scope.
Open Scope Z_scope.

(* run_crps = the execution of the translated c_crps with the arguments of metrics.py (use_weights = 0, is_sorted = 0, zeroed decomposition) *)
Theorem C03_kernel_run_crps :
  forall (n : nat) (rows : list (R * list R)) (m : nat) (wv rt0 : list R),
       KernelCrps.run_crps n rows m wv rt0 =
       exec_fun RR XRR program (S n) "c_crps"
         [AVI (Z.of_nat (Datatypes.length rows)); AVI (Z.of_nat m); AVI 0; 
          AVI 0; AVArrF (map fst rows); AVArrF (List.concat (map snd rows)); 
          AVArrF wv; AVArrF rt0; AVArrF [0%R; 0%R; 0%R; 0%R; 0%R]].
Proof. exact @KernelCrps.run_crps_is_exec. Qed.
Print Assumptions C03_kernel_run_crps.

(* every n >= 1 forecasts of every common size m >= 1: the translated kernel (called as metrics.py calls it, run_crps) returns 0 and writes [crps; reli; resol; unc; pot] with crps = mean(E|X-y| - 0.5 E|X-X'|), crps = reli + pot, resol = unc - pot, reli, pot, unc, crps >= 0, unc = CRPS of the climatology *)
Theorem C03_kernel_crps_decomposition :
  forall (m : nat) (rows : list (R * list R)) (wv rt0 : list R) (n : nat),
       CrpsProofs.wfrows m rows ->
       Datatypes.length rt0 = (7 * S m)%nat ->
       (Nat.max (Datatypes.length rows) (S m) < n)%nat ->
       exists (table : list R) (crps reli resol unc pot : R),
         KernelCrps.run_crps n rows m wv rt0 =
         Ok
           (RI 0,
            [VArrF (map fst rows); VArrF (List.concat (map snd rows)); 
             VArrF wv; VArrF table; VArrF [crps; reli; resol; unc; pot]]) /\
         Datatypes.length table = (7 * S m)%nat /\
         crps = CrpsDefProofs.crps_def rows /\
         crps = (reli + pot)%R /\
         resol = (unc - pot)%R /\
         (0 <= reli)%R /\
         (0 <= pot)%R /\
         (0 <= unc)%R /\
         (0 <= crps)%R /\ unc = CrpsDefProofs.crps_def (CrpsDefProofs.climatology rows).
Proof. exact @KernelCrps.kernel_crps_decomposition. Qed.
Print Assumptions C03_kernel_crps_decomposition.

(* one member per forecast: the first number written is the mean absolute error *)
Theorem C03_kernel_crps_single_member_is_mae :
  forall (rows : list (R * list R)) (wv rt0 : list R) (n : nat),
       CrpsProofs.wfrows 1 rows ->
       Datatypes.length rt0 = 14%nat ->
       (Nat.max (Datatypes.length rows) 2 < n)%nat ->
       exists (table : list R) (reli resol unc pot : R),
         KernelCrps.run_crps n rows 1 wv rt0 =
         Ok
           (RI 0,
            [VArrF (map fst rows); VArrF (List.concat (map snd rows)); 
             VArrF wv; VArrF table;
             VArrF
               [(CrpsSort.Rsum (map (fun r : R * list R => Rabs (hd 0 (snd r) - fst r)) rows) /
                 INR (Datatypes.length rows))%R; reli; resol; unc; pot]]).
Proof. exact @KernelCrps.kernel_crps_single_member_is_mae. Qed.
Print Assumptions C03_kernel_crps_single_member_is_mae.

(* the reliability table written by the translated kernel: m+1 rows of 7 numbers; in every row the CRPS term = reliability + potential, both non-negative; where g > 0 the rank column is a frequency in [0,1] *)
Theorem C03_kernel_crps_table :
  forall (m : nat) (rows : list (R * list R)) (wv rt0 : list R) (n : nat),
       CrpsProofs.wfrows m rows ->
       Datatypes.length rt0 = (7 * S m)%nat ->
       (Nat.max (Datatypes.length rows) (S m) < n)%nat ->
       exists (tb : list trow) (dec : list R),
         KernelCrps.run_crps n rows m wv rt0 =
         Ok
           (RI 0,
            [VArrF (map fst rows); VArrF (List.concat (map snd rows)); 
             VArrF wv; VArrF (flat_map RefineCrps.trow_vals tb); VArrF dec]) /\
         Datatypes.length tb = S m /\
         Forall
           (fun r : trow =>
            crps_term RR r = (CrpsProofs.g_r r + CrpsProofs.g_c r)%R /\
            (0 <= CrpsProofs.g_r r)%R /\ (0 <= CrpsProofs.g_c r)%R) tb /\
         Forall (fun r : trow => (0 < t_g r)%R -> (0 <= t_o r <= 1)%R) tb.
Proof. exact @KernelCrps.kernel_crps_table. Qed.
Print Assumptions C03_kernel_crps_table.

(* the hypotheses are satisfiable: three forecasts of three members with ties *)
Theorem C03_kernel_crps_nonvacuous :
  exists (table : list R) (crps reli resol unc pot : R),
         KernelCrps.run_crps 10
           [(1%R, [2%R; 1%R; 1%R]); (0%R, [1%R; 3%R; 2%R]); (5%R, [4%R; 4%R; 0%R])] 3 [0%R]
           (repeat 0%R 28) =
         Ok
           (RI 0,
            [VArrF [1%R; 0%R; 5%R]; VArrF [2%R; 1%R; 1%R; 1%R; 3%R; 2%R; 4%R; 4%R; 0%R];
             VArrF [0%R]; VArrF table; VArrF [crps; reli; resol; unc; pot]]) /\
         crps = (reli + pot)%R /\
         resol = (unc - pot)%R /\ (0 <= reli)%R /\ (0 <= pot)%R /\ (0 <= unc)%R.
Proof. exact @KernelCrps.kernel_crps_example. Qed.
Print Assumptions C03_kernel_crps_nonvacuous.
