(* C03 - stub, replaced below *)
From Coq Require Import ZArith Bool List Reals.
From Hy Require Import Base.Num Gen.ConstsC03 Model.Crps.
Import ListNotations.
Example C03_stub : CRPS_IS_SORTED = 0%Z.
Proof. reflexivity. Qed.
Print Assumptions C03_stub.
