(* C15 - point-in-polygon answers agree with the even-odd rule.
   Statements only; every proof is `exact <lemma of Proofs/Polygon*Proofs.v>`.

   Vocabulary (Proofs/PolygonProofs.v):
     edges poly            the edges v0->v1, ..., v(n-1)->v0 walked by the kernel
     crossesb x y e        textbook crossing test: min y(e) < y <= max y(e) and the
                           intersection of e's line with the horizontal through
                           (x,y) lies at or to the right of x
     crossing_number       number of crossing edges;  parity_answer = 1 iff odd
     good_poly atol poly   no edge has 0 < |dy| <= atol or 0 < |dx| < atol
     pip_point N atol poly p   the value points_inside_polygon stores for point p
                               (None = ValueError)
   The even-odd rule is proved in two forms: (1) parity of the crossings of the
   horizontal ray to the right (C15_inside_is_crossing_parity); (2) the
   ray-free covering form: parity of the number of fan triangles
   (v0, vi, vi+1) that strictly contain the point (C15_inside_is_fan_parity),
   which for a triangle or a rectangle is the topological interior itself
   (C15_triangle_interior, C15_rectangle_interior).  The Jordan curve theorem
   (for a simple polygon the odd-parity set is the bounded component) is NOT
   proved; the exact oracle of harness/props/c15.py, which casts a ray in a
   generic direction, decides the property on the implementation. *)
From Coq Require Import ZArith Bool List Reals Sorted.
From Hy Require Import Base.Num Gen.ConstsC15 Model.Grid Model.Polygon.
From Hy Require Import Proofs.PolygonProofs Proofs.PolygonInvProofs Proofs.PolygonTriProofs.
Import ListNotations.
Open Scope R_scope.

(* ---- the answer is the parity of the crossing number: every polygon with at
   least one vertex (hence every polygon with >= 3), convex or not,
   self-intersecting or not, every point, inside or outside the extent ---- *)
Theorem C15_inside_is_crossing_parity : forall atol poly p,
  poly <> [] -> good_poly atol poly ->
  pip_point RR atol poly p = Some (parity_answer poly p).
Proof. exact inside_is_crossing_parity. Qed.
Print Assumptions C15_inside_is_crossing_parity.

(* the whole vector returned by gutils.points_inside_polygon *)
Theorem C15_inside_vector_is_crossing_parity : forall atol poly pts,
  poly <> [] -> good_poly atol poly ->
  points_inside_polygon RR atol pts poly None = Some (map (parity_answer poly) pts).
Proof. exact inside_vector_is_crossing_parity. Qed.
Print Assumptions C15_inside_vector_is_crossing_parity.

(* non-vacuity: a non-convex polygon with horizontal and vertical edges
   respects the default tolerance; a point level with two of its vertices is
   inside, a point of its notch (inside the extent) is outside *)
Example C15_hypotheses_satisfiable :
  lshape <> [] /\ good_poly PIP_ATOL_DEFAULT_R lshape /\
  pip_point RR PIP_ATOL_DEFAULT_R lshape (1 / 2, 1) = Some 1%Z /\
  pip_point RR PIP_ATOL_DEFAULT_R lshape (3 / 2, 3 / 2) = Some 0%Z.
Proof.
  exact (conj lshape_nonempty (conj lshape_good
          (conj lshape_inside_level_with_vertices lshape_outside_in_box))).
Qed.
Print Assumptions C15_hypotheses_satisfiable.

(* ---- bounding box ---- *)
(* a point outside the computed extent is answered 0 (any arithmetic instance,
   binary64 included) *)
Theorem C15_outside_box_zero : forall {T} (N : NumOps T) atol poly xlim ylim p,
  extent N poly = Some (xlim, ylim) -> outside_box N xlim ylim p = true ->
  pip_point N atol poly p = Some 0%Z.
Proof. exact @outside_box_zero. Qed.
Print Assumptions C15_outside_box_zero.

Theorem C15_outside_extent_zero : forall atol poly x y xmin xmax ymin ymax,
  poly <> [] ->
  (forall v, In v poly -> xmin <= fst v <= xmax /\ ymin <= snd v <= ymax) ->
  (x < xmin \/ xmax < x \/ y < ymin \/ ymax < y) ->
  pip_point RR atol poly (x, y) = Some 0%Z.
Proof. exact outside_extent_zero. Qed.
Print Assumptions C15_outside_extent_zero.

(* ... and this shortcut agrees with the even-odd rule: outside the extent the
   crossing number is even (to the left of the polygon every spanning edge
   crosses, and spans come in pairs around a closed vertex list) *)
Theorem C15_outside_crossing_even : forall poly xlim ylim p,
  extent RR poly = Some (xlim, ylim) -> outside_box RR xlim ylim p = true ->
  Nat.odd (crossing_number poly p) = false.
Proof. exact outside_crossing_even. Qed.
Print Assumptions C15_outside_crossing_even.

Example C15_outside_nonvacuous :
  exists xlim ylim, extent RR lshape = Some (xlim, ylim) /\
                    outside_box RR xlim ylim (-1, 1) = true.
Proof. exact lshape_outside_example. Qed.
Print Assumptions C15_outside_nonvacuous.

(* ---- invariances ---- *)
(* any starting vertex *)
Theorem C15_rotate_invariant : forall atol a b p,
  good_poly atol (a ++ b) ->
  pip_point RR atol (b ++ a) p = pip_point RR atol (a ++ b) p.
Proof. exact rotate_invariant. Qed.
Print Assumptions C15_rotate_invariant.

(* either orientation *)
Theorem C15_reverse_invariant : forall atol poly p,
  good_poly atol poly ->
  pip_point RR atol (rev poly) p = pip_point RR atol poly p.
Proof. exact reverse_invariant. Qed.
Print Assumptions C15_reverse_invariant.

(* vertex list closed by repeating the first vertex *)
Theorem C15_close_invariant : forall atol v t p,
  good_poly atol (v :: t) ->
  pip_point RR atol ((v :: t) ++ [v]) p = pip_point RR atol (v :: t) p.
Proof. exact close_invariant. Qed.
Print Assumptions C15_close_invariant.

(* a vertex given twice in a row (with rotation: anywhere) *)
Theorem C15_repeated_vertex_invariant : forall atol v t p,
  good_poly atol (v :: t) ->
  pip_point RR atol (v :: v :: t) p = pip_point RR atol (v :: t) p.
Proof. exact repeat_first_invariant. Qed.
Print Assumptions C15_repeated_vertex_invariant.

(* translating polygon and point together *)
Theorem C15_translate_invariant : forall atol poly t p,
  good_poly atol poly ->
  pip_point RR atol (map (tr t) poly) (tr t p) = pip_point RR atol poly p.
Proof. exact translate_invariant. Qed.
Print Assumptions C15_translate_invariant.

(* scaling polygon and point together; the tolerance is the same absolute
   number on both sides, as in the code, so both polygons must respect it *)
Theorem C15_scale_invariant : forall atol poly c p,
  0 < c -> good_poly atol poly -> good_poly atol (map (sc c) poly) ->
  pip_point RR atol (map (sc c) poly) (sc c p) = pip_point RR atol poly p.
Proof. exact scale_invariant. Qed.
Print Assumptions C15_scale_invariant.

Example C15_scale_nonvacuous :
  good_poly PIP_ATOL_DEFAULT_R lshape /\
  good_poly PIP_ATOL_DEFAULT_R (map (sc (1 / 1000)) lshape).
Proof. exact (conj lshape_good lshape_scaled_good). Qed.
Print Assumptions C15_scale_nonvacuous.

(* scaling the tolerance as well needs no second hypothesis *)
Theorem C15_scale_invariant_atol : forall atol poly c p,
  0 < c -> good_poly atol poly ->
  pip_point RR (c * atol) (map (sc c) poly) (sc c p) = pip_point RR atol poly p.
Proof. exact scale_invariant_atol. Qed.
Print Assumptions C15_scale_invariant_atol.

(* the value of the tolerance does not matter for a polygon that respects it
   (in particular Grid.cells_inside_polygon not forwarding its own atol is
   harmless inside the property's quantifier) *)
Theorem C15_atol_irrelevant : forall a1 a2 poly p,
  good_poly a1 poly -> good_poly a2 poly ->
  pip_point RR a1 poly p = pip_point RR a2 poly p.
Proof. exact atol_irrelevant. Qed.
Print Assumptions C15_atol_irrelevant.

(* ---- sanity of the crossing rule ---- *)
(* one or two vertices enclose nothing *)
Theorem C15_degenerate_polygon_zero : forall atol poly p,
  poly <> [] -> (List.length poly <= 2)%nat -> good_poly atol poly ->
  pip_point RR atol poly p = Some 0%Z.
Proof. exact degenerate_polygon_zero. Qed.
Print Assumptions C15_degenerate_polygon_zero.

(* for an axis-parallel rectangle the answer IS the topological interior,
   for every point off the four boundary lines *)
Theorem C15_rectangle_interior : forall atol a b c d x y,
  a < b -> c < d -> atol <= b - a -> atol < d - c ->
  x <> a -> x <> b -> y <> c -> y <> d ->
  (pip_point RR atol (rectangle a b c d) (x, y) = Some 1%Z <-> (a < x < b /\ c < y < d)) /\
  (pip_point RR atol (rectangle a b c d) (x, y) = Some 0%Z <-> ~ (a < x < b /\ c < y < d)).
Proof. exact rectangle_interior. Qed.
Print Assumptions C15_rectangle_interior.

(* for a triangle - either orientation, degenerate or not - the answer is the
   strict interior, for every point off the three lines carrying the sides *)
Theorem C15_triangle_interior : forall atol a b c p,
  good_poly atol [a; b; c] ->
  orient a b p <> 0 -> orient b c p <> 0 -> orient c a p <> 0 ->
  (pip_point RR atol [a; b; c] p = Some 1%Z <-> in_triangle a b c p).
Proof. exact triangle_interior. Qed.
Print Assumptions C15_triangle_interior.

Example C15_triangle_nonvacuous :
  good_poly PIP_ATOL_DEFAULT_R [(0, 0); (4, 1); (1, 3)] /\
  0 < orient (0, 0) (4, 1) (2, 1) /\ 0 < orient (4, 1) (1, 3) (2, 1) /\
  0 < orient (1, 3) (0, 0) (2, 1).
Proof. exact triangle_example. Qed.
Print Assumptions C15_triangle_nonvacuous.

(* the even-odd rule in its covering form, for EVERY polygon v0 :: l (convex
   or not, self-intersecting or not, any number of vertices): the answer is
   the parity of the number of fan triangles (v0, vi, vi+1) that strictly
   contain the point, for every point off the lines carrying those triangles'
   sides.  No ray, no direction: the statement is invariant under rotations
   of the plane. *)
Theorem C15_inside_is_fan_parity : forall atol v0 l p,
  good_poly atol (v0 :: l) ->
  Forall (off_lines v0 p) (path l) ->
  pip_point RR atol (v0 :: l) p =
  Some (if Nat.odd (fan_count v0 l p) then 1%Z else 0%Z).
Proof. exact inside_is_fan_parity. Qed.
Print Assumptions C15_inside_is_fan_parity.

Example C15_fan_nonvacuous :
  good_poly PIP_ATOL_DEFAULT_R ((0, 0) :: [(2, 0); (2, 1); (1, 1); (1, 2); (0, 2)]) /\
  Forall (off_lines (0, 0) (1 / 2, 5 / 4)) (path [(2, 0); (2, 1); (1, 1); (1, 2); (0, 2)]).
Proof. exact fan_example. Qed.
Print Assumptions C15_fan_nonvacuous.

(* a point with a missing (NaN) coordinate is answered 0, whatever the polygon
   holds (reals with an explicit missing value) *)
Theorem C15_nan_point_zero : forall atol (poly : list (option R * option R)) x y,
  poly <> [] -> x = None \/ y = None ->
  pip_point RN atol poly (x, y) = Some 0%Z.
Proof. exact nan_point_zero. Qed.
Print Assumptions C15_nan_point_zero.

(* ---- glue of gutils.points_inside_polygon ---- *)
Theorem C15_inside_vector_supplied : forall {T} (N : NumOps T) atol pts poly,
  points_inside_polygon N atol pts poly (Some (Z.of_nat (List.length pts))) =
  points_inside_polygon N atol pts poly None.
Proof. exact @inside_vector_supplied. Qed.
Print Assumptions C15_inside_vector_supplied.

Theorem C15_inside_vector_wrong_length : forall {T} (N : NumOps T) atol pts poly k,
  k <> Z.of_nat (List.length pts) ->
  points_inside_polygon N atol pts poly (Some k) = None.
Proof. exact @inside_vector_wrong_length. Qed.
Print Assumptions C15_inside_vector_wrong_length.

Theorem C15_empty_polygon_rejected : forall {T} (N : NumOps T) atol pts il,
  points_inside_polygon N atol pts [] il = None.
Proof. exact @empty_polygon_rejected. Qed.
Print Assumptions C15_empty_polygon_rejected.

(* ---- Grid.cells_inside_polygon ---- *)
(* any arithmetic instance: the rows are, in increasing cell order, exactly the
   cells whose centre is answered non-zero, with the centre's coordinates *)
Theorem C15_cells_inside_is_filter :
  forall {T} (N : NumOps T) ad nrows ncols xll yll csz poly atol rows,
  cells_inside_polygon N ad nrows ncols xll yll csz poly atol = Some rows ->
  exists xlim ylim, extent N poly = Some (xlim, ylim) /\
  rows = map (fun c => (cell2coord N nrows ncols xll yll csz c, c))
           (filter (fun c => negb (c_inside_point N (cells_atol ad atol) xlim ylim poly
                                     (cell2coord N nrows ncols xll yll csz c) 0 =? 0)%Z)
                   (zrange (nrows * ncols))).
Proof. exact @cells_inside_is_filter. Qed.
Print Assumptions C15_cells_inside_is_filter.

Theorem C15_cells_inside_sorted :
  forall {T} (N : NumOps T) ad nrows ncols xll yll csz poly atol rows,
  cells_inside_polygon N ad nrows ncols xll yll csz poly atol = Some rows ->
  StronglySorted Z.lt (map snd rows).
Proof. exact @cells_inside_sorted. Qed.
Print Assumptions C15_cells_inside_sorted.

(* over the reals: a cell is returned exactly when the crossing number of its
   centre is odd; the centre of cell (row, col) is spelled out *)
Theorem C15_cells_inside_centres : forall nrows ncols xll yll csz poly atol,
  poly <> [] -> good_poly (cells_atol PIP_ATOL_DEFAULT_R atol) poly ->
  exists rows,
    cells_inside_polygon RR PIP_ATOL_DEFAULT_R nrows ncols xll yll csz poly atol = Some rows /\
    (forall xy c, In (xy, c) rows <->
       (0 <= c < nrows * ncols)%Z /\ xy = cell2coord RR nrows ncols xll yll csz c /\
       Nat.odd (crossing_number poly xy) = true) /\
    (forall row col, (0 <= col < ncols)%Z -> (0 <= row < nrows)%Z ->
       let centre := (xll + csz * (IZR col + / 2), yll + csz * (IZR (nrows - 1 - row) + / 2)) in
       In (centre, (row * ncols + col)%Z) rows <-> Nat.odd (crossing_number poly centre) = true).
Proof. exact cells_inside_centres. Qed.
Print Assumptions C15_cells_inside_centres.

Example C15_cells_nonvacuous :
  lshape <> [] /\ good_poly (cells_atol PIP_ATOL_DEFAULT_R (1 / 1000)) lshape.
Proof. exact (conj lshape_nonempty lshape_cells). Qed.
Print Assumptions C15_cells_nonvacuous.

Theorem C15_cells_inside_empty_polygon : forall {T} (N : NumOps T) ad nrows ncols xll yll csz atol,
  cells_inside_polygon N ad nrows ncols xll yll csz [] atol = None.
Proof. exact @cells_inside_empty_polygon. Qed.
Print Assumptions C15_cells_inside_empty_polygon.

(* ================================================================== *)
(* The same property on the REGENERATED program: [program] is the MiniC  *)
(* translation of the C kernel produced from the tree under test on      *)
(* every run (Gen/KernelsAst.v); [exec_fun] its interpreter (MiniC.v).   *)
(* ================================================================== *)
From Coq Require Import String Lia.
From Hy Require Import Base.MiniC Gen.KernelsAst Proofs.RefinePolygon.
Open Scope string_scope.
Open Scope list_scope.
Open Scope Z_scope.

(* c_inside = the model, any arithmetic instance (binary64 included), any nprint, any
   tolerance, bounding box, points and polygon with at least one vertex (the wrapper's
   min()/max() raise on an empty polygon), any initial content of the output *)
Theorem C15_kernel_inside_refines_model :
  forall {T} (N : NumOps T) (X : NumLit T) nprint (pts poly : list (T * T))
         (atol xl0 xl1 yl0 yl1 : T) ins n,
  List.length ins = List.length pts -> poly <> [] ->
  (List.length pts < n)%nat -> (List.length poly < n)%nat ->
  exec_fun N X program (S n) "c_inside"
    [AVI nprint; AVI (MiniC.zlen pts); AVArrF (flat pts); AVI (MiniC.zlen poly); AVArrF (flat poly);
     AVF atol; AVArrF [xl0; xl1]; AVArrF [yl0; yl1]; AVArrI ins]
  = Ok (RI 0, [VArrF (flat pts); VArrF (flat poly); VArrF [xl0; xl1]; VArrF [yl0; yl1];
               VArrI (c_inside N atol (xl0, xl1) (yl0, yl1) poly pts ins)]).
Proof. exact @refine_c_inside_wrapper. Qed.
Print Assumptions C15_kernel_inside_refines_model.

(* [flat] is the row-major (n, 2) buffer *)
Example C15_kernel_flat : flat [(1, 2); (3, 4)] = [1; 2; 3; 4].
Proof. reflexivity. Qed.

(* ================================================================== *)
(* C15 ITSELF on the regenerated program: the even-odd rule transported *)
(* to exec_fun RR XRR program "c_inside" (Proofs/KernelPolygon.v), for *)
(* every bounding box that contains the vertices (box_contains).      *)
(* ================================================================== *)
From Coq Require Import String Lia PrimFloat.
From Hy Require Import Base.Num Base.MiniC Gen.KernelsAst Gen.Consts Gen.ConstsC15 Model.Grid Model.Polygon.
From Hy Require Proofs.KernelPolygon.
Import ListNotations.
Open Scope string_scope.
Open Scope list_scope.
Open Scope Z_scope.

(* run_inside = the execution of the translated c_inside *)
Theorem C15_kernel_run_inside :
  forall (n : nat) (nprint : Z) (atol xl0 xl1 yl0 yl1 : R) (poly pts : list (R * R))
         (ins : list Z),
       KernelPolygon.run_inside n nprint atol xl0 xl1 yl0 yl1 poly pts ins =
       exec_fun RR XRR program (S n) "c_inside"
         [AVI nprint; AVI (zlen pts); AVArrF (RefinePolygon.flat pts); 
          AVI (zlen poly); AVArrF (RefinePolygon.flat poly); AVF atol; 
          AVArrF [xl0; xl1]; AVArrF [yl0; yl1]; AVArrI ins].
Proof. exact @KernelPolygon.run_inside_is_exec. Qed.
Print Assumptions C15_kernel_run_inside.

(* the extent computed by the wrapper is a box containing every vertex *)
Theorem C15_kernel_extent_is_a_containing_box :
  forall (poly : list (R * R)) (xl0 xl1 yl0 yl1 : R),
       extent RR poly = Some (xl0, xl1, (yl0, yl1)) ->
       KernelPolygon.box_contains xl0 xl1 yl0 yl1 poly.
Proof. exact @KernelPolygon.kernel_inside_extent_box. Qed.
Print Assumptions C15_kernel_extent_is_a_containing_box.

(* good_poly polygon (convex or not, self-intersecting or not), any containing box, any points, zero-filled inside vector: the array returned by the translated kernel holds 1 where the crossing number is odd and 0 where it is even *)
Theorem C15_kernel_inside_is_crossing_parity :
  forall (nprint : Z) (atol xl0 xl1 yl0 yl1 : R) (poly pts : list (R * R)) (n : nat),
       poly <> [] ->
       PolygonProofs.good_poly atol poly ->
       KernelPolygon.box_contains xl0 xl1 yl0 yl1 poly ->
       (Datatypes.length pts < n)%nat ->
       (Datatypes.length poly < n)%nat ->
       KernelPolygon.run_inside n nprint atol xl0 xl1 yl0 yl1 poly pts
         (repeat 0 (Datatypes.length pts)) =
       Ok
         (RI 0,
          [VArrF (RefinePolygon.flat pts); VArrF (RefinePolygon.flat poly); 
           VArrF [xl0; xl1]; VArrF [yl0; yl1];
           VArrI
             (map
                (fun p : R * R => if Nat.odd (PolygonProofs.crossing_number poly p) then 1 else 0)
                pts)]).
Proof. exact @KernelPolygon.kernel_inside_is_crossing_parity. Qed.
Print Assumptions C15_kernel_inside_is_crossing_parity.

(* entry by entry: 1 EXACTLY for the points of odd crossing number, 0 exactly for the others *)
Theorem C15_kernel_inside_one_iff_odd :
  forall (nprint : Z) (atol xl0 xl1 yl0 yl1 : R) (poly pts : list (R * R)) (n : nat),
       poly <> [] ->
       PolygonProofs.good_poly atol poly ->
       KernelPolygon.box_contains xl0 xl1 yl0 yl1 poly ->
       (Datatypes.length pts < n)%nat ->
       (Datatypes.length poly < n)%nat ->
       exists res : list Z,
         KernelPolygon.run_inside n nprint atol xl0 xl1 yl0 yl1 poly pts
           (repeat 0 (Datatypes.length pts)) =
         Ok
           (RI 0,
            [VArrF (RefinePolygon.flat pts); VArrF (RefinePolygon.flat poly); 
             VArrF [xl0; xl1]; VArrF [yl0; yl1]; VArrI res]) /\
         Forall2
           (fun (p : R * R) (r : Z) =>
            (r = 1 <-> Nat.odd (PolygonProofs.crossing_number poly p) = true) /\
            (r = 0 <-> Nat.odd (PolygonProofs.crossing_number poly p) = false)) pts res.
Proof. exact @KernelPolygon.kernel_inside_one_iff_odd. Qed.
Print Assumptions C15_kernel_inside_one_iff_odd.

(* with the box of the .pyx wrapper the array is what the model of gutils.points_inside_polygon returns *)
Theorem C15_kernel_inside_with_wrapper_extent :
  forall (nprint : Z) (atol xl0 xl1 yl0 yl1 : R) (poly pts : list (R * R)) (n : nat),
       PolygonProofs.good_poly atol poly ->
       extent RR poly = Some (xl0, xl1, (yl0, yl1)) ->
       (Datatypes.length pts < n)%nat ->
       (Datatypes.length poly < n)%nat ->
       exists res : list Z,
         KernelPolygon.run_inside n nprint atol xl0 xl1 yl0 yl1 poly pts
           (repeat 0 (Datatypes.length pts)) =
         Ok
           (RI 0,
            [VArrF (RefinePolygon.flat pts); VArrF (RefinePolygon.flat poly); 
             VArrF [xl0; xl1]; VArrF [yl0; yl1]; VArrI res]) /\
         points_inside_polygon RR atol pts poly None = Some res /\
         res = map (PolygonProofs.parity_answer poly) pts.
Proof. exact @KernelPolygon.kernel_inside_with_extent. Qed.
Print Assumptions C15_kernel_inside_with_wrapper_extent.

(* ray-free form: parity of the number of fan triangles (v0, vi, vi+1) strictly containing the point *)
Theorem C15_kernel_inside_is_fan_parity :
  forall (nprint : Z) (atol xl0 xl1 yl0 yl1 : R) (v0 : R * R) (l pts : list (R * R)) (n : nat),
       PolygonProofs.good_poly atol (v0 :: l) ->
       KernelPolygon.box_contains xl0 xl1 yl0 yl1 (v0 :: l) ->
       Forall (fun p : R * R => Forall (PolygonTriProofs.off_lines v0 p) (path l)) pts ->
       (Datatypes.length pts < n)%nat ->
       (Datatypes.length (v0 :: l) < n)%nat ->
       KernelPolygon.run_inside n nprint atol xl0 xl1 yl0 yl1 (v0 :: l) pts
         (repeat 0 (Datatypes.length pts)) =
       Ok
         (RI 0,
          [VArrF (RefinePolygon.flat pts); VArrF (RefinePolygon.flat (v0 :: l)); 
           VArrF [xl0; xl1]; VArrF [yl0; yl1];
           VArrI
             (map (fun p : R * R => if Nat.odd (PolygonTriProofs.fan_count v0 l p) then 1 else 0)
                pts)]).
Proof. exact @KernelPolygon.kernel_inside_is_fan_parity. Qed.
Print Assumptions C15_kernel_inside_is_fan_parity.

(* non-vacuity: the L-shaped polygon, a point level with two vertices (1), a point of the notch (0), a point outside the box (0), executed on the translated kernel *)
Theorem C15_kernel_inside_example :
  KernelPolygon.run_inside 7 0 PIP_ATOL_DEFAULT_R 0 2 0 2 PolygonInvProofs.lshape
         [((1 / 2)%R, 1%R); ((3 / 2)%R, (3 / 2)%R); ((-1)%R, 1%R)] [0; 0; 0] =
       Ok
         (RI 0,
          [VArrF [(1 / 2)%R; 1%R; (3 / 2)%R; (3 / 2)%R; (-1)%R; 1%R];
           VArrF (RefinePolygon.flat PolygonInvProofs.lshape); VArrF [0%R; 2%R]; 
           VArrF [0%R; 2%R]; VArrI [1; 0; 0]]).
Proof. exact @KernelPolygon.kernel_inside_example. Qed.
Print Assumptions C15_kernel_inside_example.
