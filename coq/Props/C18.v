(* C18 - computations leave their arguments untouched and are repeatable.
   PARTIAL BY NATURE (DESIGN 5/C18, 7): the theorems are about the copy
   discipline of the wrappers in front of the C kernels - a provenance model
   of the numpy/pandas conversion idioms (Model/Alias.v), with the kernels'
   write-sets, the Cython buffer contracts and the kernel call sites
   re-extracted from the working tree (Gen/ConstsC18.v).  Functions that never
   reach a kernel, and repeatability, are decided by the implementation-level
   search of harness/props/c18.py.
   Statements only; proofs are `exact <lemma>` from Proofs/AliasProofs.v. *)
From Coq Require Import ZArith List Bool String.
From Hy Require Import Base.Num Gen.ConstsC18 Model.Alias Proofs.AliasProofs Proofs.AliasRepeat.
Import ListNotations.
Open Scope string_scope.

(* ---- the frame property (pipeline_sound) -------------------------------
   For EVERY wrapper that passes the static check, every class of every
   argument (dtype, layout, container: the classes are part of [e]), every
   behaviour of the kernels within the write-sets read off the C code, every
   point at which the wrapper may stop: all memory that existed before the
   call - the caller's arrays, the cells of the grid, the module constant, and
   any other block - holds afterwards what it held before, except the object's
   own derived state. *)
Theorem C18_pipeline_sound :
  forall (A : Type) (copyf : op -> A -> A) (initf : desc -> A)
         (w : wrapper) (e : env) (h0 : heap A) (n0 : block) (h' : heap A) (n' : block),
  check w = true -> env_wf e n0 ->
  exec A copyf initf e (w_calls w) h0 n0 h' n' ->
  forall x, x < n0 -> x <> e_state e -> h' x = h0 x.
Proof. exact pipeline_sound. Qed.
Print Assumptions C18_pipeline_sound.

Theorem C18_arguments_untouched :
  forall (A : Type) copyf initf (w : wrapper) (e : env) (h0 : heap A) n0 h' n',
  check w = true -> env_wf e n0 ->
  exec A copyf initf e (w_calls w) h0 n0 h' n' ->
  (forall b d, In (b, d) (e_args e) -> h' b = h0 b) /\
  (forall b d, e_self e = Some (b, d) -> h' b = h0 b) /\
  h' (e_global e) = h0 (e_global e).
Proof. exact arguments_untouched. Qed.
Print Assumptions C18_arguments_untouched.

(* non-vacuity: anderson_darling_test passes the check, the environment below is
   well formed, and there is an execution in which the kernel DOES overwrite its
   input buffer (block 3 = the astype copy) while the caller's block 0 is intact *)
Example C18_pipeline_sound_nonvacuous :
  check w_ad = true /\ env_wf ex_env 3 /\
  exists h' n', exec nat (fun _ a => a) (fun _ => 0) ex_env (w_calls w_ad) ex_h0 3 h' n' /\
                h' 3 <> ex_h0 0 /\ h' 0 = ex_h0 0.
Proof. exact (conj check_ad (conj ex_env_wf ad_exec_example)). Qed.
Print Assumptions C18_pipeline_sound_nonvacuous.

(* ---- repeatability, in the model (second clause of the property) ----------
   Kernels as deterministic functions [kfun] of the contents of their
   parameters.  For every wrapper passing the check, every argument class,
   every such kernel family: if the first run leaves the object's derived state
   as it was, the second of two consecutive calls - started from the heap and
   the allocation pointer the first one left - observes exactly the same
   contents of every kernel parameter after every kernel call. *)
Theorem C18_second_call_same :
  forall (A : Type) copyf initf (kfun : string -> list A -> list A)
         (w : wrapper) (e : env) (h0 : heap A) (n0 : block) o1 h1 n1 o2 h2 n2,
  check w = true -> env_wf e n0 ->
  drun A copyf initf kfun e (w_calls w) h0 n0 = (o1, h1, n1) ->
  h1 (e_state e) = h0 (e_state e) ->
  drun A copyf initf kfun e (w_calls w) h1 n1 = (o2, h2, n2) ->
  o2 = o1.
Proof. exact second_call_same. Qed.
Print Assumptions C18_second_call_same.

(* non-vacuity: a run of anderson_darling_test with a kernel that rewrites both its
   buffers; the observation is not empty and the state block is left alone *)
Example C18_second_call_same_nonvacuous :
  let r := drun nat (fun _ a => a) (fun _ => 0) (fun _ ins => map S ins) ex_env (w_calls w_ad) ex_h0 3 in
  fst (fst r) = [[43; 1]] /\ snd (fst r) (e_state ex_env) = ex_h0 (e_state ex_env) /\ snd r = 5.
Proof. vm_compute. repeat split. Qed.
Print Assumptions C18_second_call_same_nonvacuous.

(* the deterministic run is one of the executions the frame property speaks about *)
Theorem C18_deterministic_run_is_an_execution :
  forall (A : Type) copyf initf (kfun : string -> list A -> list A) e cs h n o h' n',
  drun A copyf initf kfun e cs h n = (o, h', n') -> exec A copyf initf e cs h n h' n'.
Proof. exact drun_exec. Qed.
Print Assumptions C18_deterministic_run_is_an_execution.

(* the check quantifies over every input class: the enumeration is complete *)
Theorem C18_input_classes_complete : forall d : desc, In d all_desc.
Proof. exact all_desc_complete. Qed.
Print Assumptions C18_input_classes_complete.

(* ---- every transcribed wrapper passes, against the regenerated facts ---- *)
Theorem C18_all_wrappers_checked : forallb check WRAPPERS = true.
Proof. exact all_wrappers_checked. Qed.
Print Assumptions C18_all_wrappers_checked.

(* every call `c_hydrodiy_*.<entry>(...)` found in the anchored Python files has a transcribed pipeline *)
Theorem C18_every_kernel_call_site_is_modelled : callsites_covered = true.
Proof. exact callsites_all_covered. Qed.
Print Assumptions C18_every_kernel_call_site_is_modelled.

(* parameter names of the pipelines are those of the .pyx entries, none is left without a source *)
Theorem C18_wrappers_match_entry_signatures : wrappers_wf = true.
Proof. exact wrappers_well_formed. Qed.
Print Assumptions C18_wrappers_match_entry_signatures.

Theorem C18_check_crps : check w_crps = true.
Proof. exact check_crps. Qed.
Print Assumptions C18_check_crps.
Theorem C18_check_ad : check w_ad = true.
Proof. exact check_ad. Qed.
Print Assumptions C18_check_ad.
Theorem C18_check_alpha : check w_alpha = true.
Proof. exact check_alpha. Qed.
Print Assumptions C18_check_alpha.
Theorem C18_check_dscore : check w_dscore = true.
Proof. exact check_dscore. Qed.
Print Assumptions C18_check_dscore.
Theorem C18_check_pareto : check w_pareto = true.
Proof. exact check_pareto. Qed.
Print Assumptions C18_check_pareto.
Theorem C18_check_arsim : check w_arsim = true.
Proof. exact check_arsim. Qed.
Print Assumptions C18_check_arsim.
Theorem C18_check_arres : check w_arres = true.
Proof. exact check_arres. Qed.
Print Assumptions C18_check_arres.
Theorem C18_check_aggregate : check w_aggregate = true.
Proof. exact check_aggregate. Qed.
Print Assumptions C18_check_aggregate.
Theorem C18_check_flathomogen : check w_flathomogen = true.
Proof. exact check_flathomogen. Qed.
Print Assumptions C18_check_flathomogen.
Theorem C18_check_goue : check w_goue = true.
Proof. exact check_goue. Qed.
Print Assumptions C18_check_goue.
Theorem C18_check_var2h : check w_var2h = true.
Proof. exact check_var2h. Qed.
Print Assumptions C18_check_var2h.
Theorem C18_check_islinear : check w_islinear = true.
Proof. exact check_islinear. Qed.
Print Assumptions C18_check_islinear.
Theorem C18_check_eckhardt : check w_eckhardt = true.
Proof. exact check_eckhardt. Qed.
Print Assumptions C18_check_eckhardt.
Theorem C18_check_coord2cell : check w_coord2cell = true.
Proof. exact check_coord2cell. Qed.
Print Assumptions C18_check_coord2cell.
Theorem C18_check_cell2coord : check w_cell2coord = true.
Proof. exact check_cell2coord. Qed.
Print Assumptions C18_check_cell2coord.
Theorem C18_check_cell2rowcol : check w_cell2rowcol = true.
Proof. exact check_cell2rowcol. Qed.
Print Assumptions C18_check_cell2rowcol.
Theorem C18_check_neighbours : check w_neighbours = true.
Proof. exact check_neighbours. Qed.
Print Assumptions C18_check_neighbours.
Theorem C18_check_slice : check w_slice = true.
Proof. exact check_slice. Qed.
Print Assumptions C18_check_slice.
Theorem C18_check_pip : check w_pip = true.
Proof. exact check_pip. Qed.
Print Assumptions C18_check_pip.
Theorem C18_check_cells_inside : check w_cells_inside = true.
Proof. exact check_cells_inside. Qed.
Print Assumptions C18_check_cells_inside.
Theorem C18_check_upstream : check w_upstream = true.
Proof. exact check_upstream. Qed.
Print Assumptions C18_check_upstream.
Theorem C18_check_downstream : check w_downstream = true.
Proof. exact check_downstream. Qed.
Print Assumptions C18_check_downstream.
Theorem C18_check_delineate_area : check w_delineate_area = true.
Proof. exact check_delineate_area. Qed.
Print Assumptions C18_check_delineate_area.
Theorem C18_check_boundary : check w_boundary = true.
Proof. exact check_boundary. Qed.
Print Assumptions C18_check_boundary.
Theorem C18_check_boundary_mask : check w_boundary_mask = true.
Proof. exact check_boundary_mask. Qed.
Print Assumptions C18_check_boundary_mask.
Theorem C18_check_flowpaths : check w_flowpaths = true.
Proof. exact check_flowpaths. Qed.
Print Assumptions C18_check_flowpaths.
Theorem C18_check_intersect : check w_intersect = true.
Proof. exact check_intersect. Qed.
Print Assumptions C18_check_intersect.
Theorem C18_check_river : check w_river = true.
Proof. exact check_river. Qed.
Print Assumptions C18_check_river.
Theorem C18_check_accumulate : check w_accumulate = true.
Proof. exact check_accumulate. Qed.
Print Assumptions C18_check_accumulate.
Theorem C18_check_slope : check w_slope = true.
Proof. exact check_slope. Qed.
Print Assumptions C18_check_slope.
Theorem C18_check_voronoi : check w_voronoi = true.
Proof. exact check_voronoi. Qed.
Print Assumptions C18_check_voronoi.

(* ---- the idioms ---------------------------------------------------------- *)
(* astype / np.array / boolean mask / arithmetic / copy never alias their operand *)
Theorem C18_fresh_idioms_copy : forall o d d' v,
  is_fresh_idiom o = true -> apply_op o d = Some (d', v) -> v = false.
Proof. exact fresh_idioms_copy. Qed.
Print Assumptions C18_fresh_idioms_copy.
Example C18_fresh_idioms_copy_ex :
  is_fresh_idiom (OAstype DF64) = true /\
  apply_op (OAstype DF64) (mkd CNd DF64 N1 LC) = Some (mkd CNd DF64 N1 LC, false).
Proof. split; reflexivity. Qed.
Print Assumptions C18_fresh_idioms_copy_ex.

(* atleast_nd / squeeze / slice / .T / identity of an ndarray are views *)
Theorem C18_view_idioms_alias : forall o d d' v,
  is_view_idiom o = true -> d_cont d = CNd -> apply_op o d = Some (d', v) -> v = true.
Proof. exact view_idioms_alias. Qed.
Print Assumptions C18_view_idioms_alias.
Example C18_view_idioms_alias_ex :
  is_view_idiom OTranspose = true /\
  apply_op OTranspose (mkd CNd DI64 N2 LC) = Some (mkd CNd DI64 N2 LF, true).
Proof. split; reflexivity. Qed.
Print Assumptions C18_view_idioms_alias_ex.

(* ascontiguousarray is a view exactly when dtype and layout already match *)
Theorem C18_ascontiguousarray_view_iff : forall d d',
  d_cont d = CNd -> d_nd d <> N0 ->
  (apply_op OAsContig d = Some (d', true) <-> (d_lay d = LC /\ d' = d)).
Proof. exact ascontig_view_iff. Qed.
Print Assumptions C18_ascontiguousarray_view_iff.
Theorem C18_ascontiguousarray_dtype_view_iff : forall t d d',
  d_cont d = CNd -> d_nd d <> N0 ->
  (apply_op (OAsContigDt t) d = Some (d', true) <-> (d_dt d = t /\ d_lay d = LC /\ d' = d)).
Proof. exact ascontig_dt_view_iff. Qed.
Print Assumptions C18_ascontiguousarray_dtype_view_iff.
Example C18_ascontiguousarray_view_ex :
  apply_op (OAsContigDt DF64) (mkd CNd DF64 N2 LC) = Some (mkd CNd DF64 N2 LC, true) /\
  apply_op (OAsContigDt DF64) (mkd CNd DF64 N2 LS) = Some (mkd CNd DF64 N2 LC, false).
Proof. split; reflexivity. Qed.
Print Assumptions C18_ascontiguousarray_view_ex.

(* a pipeline of ANY length that contains one copying idiom hands on a fresh array *)
Theorem C18_copy_anywhere_in_pipeline_is_fresh : forall ops1 o ops2 d p d' pr,
  is_fresh_idiom o = true ->
  run_ops (ops1 ++ o :: ops2) d p = Some (d', pr) -> pr = PFresh.
Proof. exact copy_in_pipeline_fresh. Qed.
Print Assumptions C18_copy_anywhere_in_pipeline_is_fresh.
Example C18_copy_anywhere_ex :
  run_ops ([OAtleast1d] ++ OAstype DF64 :: [OGuard1d; OMask]) (mkd CSeries DI64 N1 LC) (PArg 0)
  = Some (mkd CNd DF64 N1 LC, PFresh).
Proof. reflexivity. Qed.
Print Assumptions C18_copy_anywhere_ex.

(* a value is the operand's memory or fresh, never somebody else's *)
Theorem C18_provenance_is_operand_or_fresh : forall ops d p d' pr,
  run_ops ops d p = Some (d', pr) -> pr = p \/ pr = PFresh.
Proof. exact run_ops_prov. Qed.
Print Assumptions C18_provenance_is_operand_or_fresh.

(* ---- why the discipline matters: kernels that store through an input ------ *)
Theorem C18_ad_test_sorts_its_input : written "stat.ad_test" "unifdata" = true.
Proof. exact ad_test_sorts_its_input. Qed.
Print Assumptions C18_ad_test_sorts_its_input.
Theorem C18_delineate_boundary_sorts_its_input : written "gis.delineate_boundary" "idxcells_area" = true.
Proof. exact delineate_boundary_sorts_its_input. Qed.
Print Assumptions C18_delineate_boundary_sorts_its_input.
(* the check is not vacuous: the same wrapper without its astype is rejected *)
Theorem C18_ad_without_copy_rejected : check w_ad_nocopy = false.
Proof. exact ad_without_copy_rejected. Qed.
Print Assumptions C18_ad_without_copy_rejected.

(* ---- the two defects of the pinned code (DESIGN 6 row 23) ------------------
   pinned variants are refuted with an execution that changes the caller's
   block; the repaired variants pass the check *)
Theorem C18_kde_pinned_refuted :
  check w_kde_pinned = false /\
  exists h' n', exec nat (fun _ a => a) (fun _ => 0)
                     (mkenv [(0, mkd CNd DF64 N2 LC)] None 1 2) (w_calls w_kde_pinned) ex_h0 3 h' n' /\
                h' 0 <> ex_h0 0.
Proof. exact (conj kde_pinned_check kde_pinned_mutates). Qed.
Print Assumptions C18_kde_pinned_refuted.
Theorem C18_kde_repaired : check w_kde = true.
Proof. exact kde_repaired_check. Qed.
Print Assumptions C18_kde_repaired.

Theorem C18_lstsq_pinned_refuted :
  check w_lstsq_pinned = false /\
  exists h' n', exec nat (fun _ a => a) (fun _ => 0)
                     (mkenv [(0, mkd CFrame DF64 N2 LF)] None 1 2) (w_calls w_lstsq_pinned) ex_h0 3 h' n' /\
                h' 0 <> ex_h0 0.
Proof. exact (conj lstsq_pinned_check lstsq_pinned_mutates). Qed.
Print Assumptions C18_lstsq_pinned_refuted.
Theorem C18_lstsq_repaired : check w_lstsq = true.
Proof. exact lstsq_repaired_check. Qed.
Print Assumptions C18_lstsq_repaired.

(* the other Python-level stores (`a[...] = v`) of the listed functions - absolute_peak_error,
   lag, monthly2daily, gsmooth, YeoJohnson - go into copies of the arguments *)
Theorem C18_python_stores_go_into_copies : forallb check PYSTORES = true.
Proof. exact pystores_checked. Qed.
Print Assumptions C18_python_stores_go_into_copies.
