(* MiniC: a deep embedding of the C subset used by the hydrodiy kernels
   (src/hydrodiy/{data,stat,gis}/c_*.c) and an executable big-step interpreter
   with fuel, generic over [NumOps T] (Base/Num.v).

   The program interpreted here is NOT written by hand: coq/Gen/KernelsAst.v is
   regenerated from the C sources of the tree under test on every run by
   harness/ctrans.py (clang JSON AST -> the constructors below).  The
   interpreter is validated against the gcc-compiled kernels by
   harness/kernels_tie.py (bit-exact on binary64, instance [F64]); refinement
   theorems (Proofs/Refine*.v) connect the hand-written functional models
   (Model/*.v) with [exec_fun program] for all inputs.

   Semantics choices (see notes/MINIC.md):
   - [int] and [long long] values are unbounded [Z]; signed overflow (undefined
     behaviour in C) is not modelled.  The width matters in one place only:
     a cast double -> integer ([ITrunc]/[IFloor]) fails with [CastRange] when
     the value does not fit the target width.
   - [double] is the carrier [T] of the [NumOps] instance.  A floating literal
     carries its binary64 value and its exact decimal value (numerator,
     denominator); the instance-specific [NumLit] record chooses.
   - integer [/] and [%] truncate toward zero ([Z.quot]/[Z.rem]); a zero divisor
     is the error [DivZero].  Comparisons yield 0/1; [&&], [||], [?:] are lazy.
   - arrays are lists held in the state, keyed by name; every access is
     bounds-checked (error [OOB name index]).  Array arguments are passed by
     copy-in/copy-out, which agrees with C's by-reference passing when no two
     array arguments of one call overlap: the interpreter refuses
     ([Alias]) a call passing the same array twice.
   - a scalar declared without initialiser holds 0; a local array declared
     without initialiser (or malloc'ed) holds zeros.
   - [qsort] is glibc's merge sort ([msort_with_tmp]: halves n/2 and n-n/2,
     left element taken when cmp <= 0), with the comparator a translated
     function called on two one-element (or k-element) arrays.
   - expressions are pure: calls are statements ([SCall]); the translator
     hoists a call out of an expression only when this provably preserves the
     order of evaluation, and refuses otherwise. *)
From Coq Require Import ZArith Bool List String Lia Reals.
From Coq Require Import PrimFloat.
From Hy Require Import Base.Num.
Import ListNotations.
Open Scope Z_scope.

(* ------------------------------------------------------------------ *)
(* errors and the result monad                                          *)

Inductive err :=
| OOB (a : string) (i : Z)        (* array access outside the buffer *)
| DivZero                         (* integer division / remainder by zero *)
| CastRange                       (* (int)x / (long long)x of NaN, inf or a value that does not fit *)
| OutOfFuel
| Unbound (x : string)            (* variable or array not in the state (translator bug) *)
| Alias (a : string)              (* the same array passed twice to one call *)
| NoFun (f : string)              (* unknown or untranslated function *)
| BadArgs (f : string)            (* arity / type mismatch at a call *)
| BadRet (f : string)             (* return value of the wrong kind, or control fell off the end *)
| NegSize (a : string)            (* local array of negative length *)
| NoExt (f : string)              (* libm function without an interpretation in this instance *)
| Overflow (w32 : bool) (z : Z).  (* [IChk]: a signed int (w32) / long long result that does not fit (UB in C) *)

Inductive result (A : Type) := Ok (a : A) | Err (e : err).
Arguments Ok {A}. Arguments Err {A}.

Definition bind {A B} (r : result A) (f : A -> result B) : result B :=
  match r with Ok a => f a | Err e => Err e end.
Notation "'do' x <- r ; k" := (bind r (fun x => k))
  (at level 200, x pattern, r at level 100, k at level 200, right associativity).

Definition of_opt {A} (e : err) (o : option A) : result A :=
  match o with Some a => Ok a | None => Err e end.

(* ------------------------------------------------------------------ *)
(* syntax                                                               *)

Inductive width := W32 | W64.

Inductive iunop := INeg | IBitNot | ILNot.
Inductive ibinop := IAdd | ISub | IMul | IDiv | IRem | IBitOr | IBitAnd.
Inductive cmpop := CLt | CLe | CGt | CGe | CEq | CNe.
Inductive funop := FNeg | FSqrt | FAbs.
Inductive fbinop := FAdd | FSub | FMul | FDiv | FMin | FMax.

Inductive iexp :=
| IConst (z : Z)
| IVar (x : string)
| IArr (a : string) (i : iexp)
| IUn (op : iunop) (e : iexp)
| IBin (op : ibinop) (a b : iexp)
| ICmp (op : cmpop) (a b : iexp)
| IFCmp (op : cmpop) (a b : fexp)
| IAnd (a b : iexp)
| IOr (a b : iexp)
| ICond (c a b : iexp)
| ITrunc (w : width) (f : fexp)      (* (int)x, (long long)x *)
| IFloor (w : width) (f : fexp)      (* (long long)floor(x) *)
| IIsnan (f : fexp)
| IChk (w : width) (e : iexp)        (* overflow-checked programs only (Gen/KernelsAstChk.v): the value of e must fit w *)
with fexp :=
| FLit (b : float) (num : Z) (den : positive)   (* binary64 value; exact decimal value num/den *)
| FNan                                (* the idiom  static zero = 0.0; 1./zero*zero  or  zero/zero *)
| FVar (x : string)
| FArr (a : string) (i : iexp)
| FUn (op : funop) (e : fexp)
| FBin (op : fbinop) (a b : fexp)
| FOfInt (e : iexp)                   (* (double)i, also implicit *)
| FCond (c : iexp) (a b : fexp)
| FExt1 (f : string) (a : fexp)       (* libm function outside NumOps: exp, log, floor ... *)
| FExt2 (f : string) (a b : fexp).

(* argument of a call: scalar, or array (by reference) from an offset: a, &a[k] *)
Inductive arg :=
| AI (e : iexp) | AF (e : fexp)
| AArrI (a : string) (off : iexp) | AArrF (a : string) (off : iexp).

Inductive dest := DNone | DI (x : string) | DF (x : string).

Inductive stmt :=
| SSkip
| SSeq (a b : stmt)
| SSetI (x : string) (e : iexp)
| SSetF (x : string) (e : fexp)
| SStoreI (a : string) (i : iexp) (e : iexp)
| SStoreF (a : string) (i : iexp) (e : fexp)
| SNewI (a : string) (n : iexp) (init : list iexp)   (* local array, zero-filled then init *)
| SNewF (a : string) (n : iexp) (init : list fexp)
| SIf (c : iexp) (a b : stmt)
| SWhile (c : iexp) (body : stmt)
| SFor (c : iexp) (step body : stmt)                 (* the init statement is emitted before *)
| SBreak | SContinue
| SRetI (e : iexp) | SRetF (e : fexp)
| SCall (d : dest) (f : string) (args : list arg)
| SQsortI (a : string) (n : iexp) (k : Z) (cmp : string)   (* n items of k elements each *)
| SQsortF (a : string) (n : iexp) (k : Z) (cmp : string).

Inductive param := PI (x : string) | PF (x : string) | PArrI (a : string) | PArrF (a : string).

Inductive fundef :=
| Fun (params : list param) (body : stmt)
| Untranslated (reason : string).

Definition program := list (string * fundef).

(* sequence of statements, right-nested *)
Fixpoint seq (l : list stmt) : stmt :=
  match l with
  | [] => SSkip
  | [s] => s
  | s :: r => SSeq s (seq r)
  end.

(* ------------------------------------------------------------------ *)
(* association lists keyed by strings                                   *)

Fixpoint alookup {A} (x : string) (l : list (string * A)) : option A :=
  match l with
  | [] => None
  | (y, v) :: r => if String.eqb x y then Some v else alookup x r
  end.

(* update in place (the order of the keys is that of first assignment) *)
Fixpoint aupd {A} (x : string) (v : A) (l : list (string * A)) : list (string * A) :=
  match l with
  | [] => [(x, v)]
  | (y, w) :: r => if String.eqb x y then (x, v) :: r else (y, w) :: aupd x v r
  end.

(* ------------------------------------------------------------------ *)
(* arrays as lists, Z indices                                           *)

(* recursion on the list with a Z index: reduces by cbn on a concrete index
   (no Z.to_nat), blocks on a symbolic one (then use zget_ok / zset_ok) *)
Fixpoint zget {A} (l : list A) (i : Z) {struct l} : option A :=
  match l with
  | [] => None
  | x :: r => if i =? 0 then Some x else zget r (i - 1)
  end.

Fixpoint zset {A} (l : list A) (i : Z) (v : A) {struct l} : option (list A) :=
  match l with
  | [] => None
  | x :: r => if i =? 0 then Some (v :: r)
              else match zset r (i - 1) v with Some r' => Some (x :: r') | None => None end
  end.

(* length and repeat with Z arguments (reduce by cbn on concrete data) *)
Fixpoint zlen {A} (l : list A) : Z :=
  match l with [] => 0 | _ :: r => 1 + zlen r end.

Definition zrepeat {A} (x : A) (n : Z) : list A :=
  match n with Zpos p => Pos.iter (cons x) [] p | _ => [] end.

(* ------------------------------------------------------------------ *)
(* values                                                               *)

Section Sem.
Context {T : Type}.

Inductive argval := AVI (z : Z) | AVF (x : T) | AVArrI (l : list Z) | AVArrF (l : list T).
Inductive arrval := VArrI (l : list Z) | VArrF (l : list T).
Inductive retval := RI (z : Z) | RF (x : T) | RVoid.
Inductive outcome := ONormal | OBreak | OContinue | ORet (v : retval).

Record state := mkState {
  s_i : list (string * Z);
  s_f : list (string * T);
  s_ai : list (string * list Z);
  s_af : list (string * list T) }.

Definition st_empty : state := mkState [] [] [] [].

Definition set_i (st : state) (x : string) (v : Z) : state :=
  mkState (aupd x v (s_i st)) (s_f st) (s_ai st) (s_af st).
Definition set_f (st : state) (x : string) (v : T) : state :=
  mkState (s_i st) (aupd x v (s_f st)) (s_ai st) (s_af st).
Definition set_ai (st : state) (a : string) (l : list Z) : state :=
  mkState (s_i st) (s_f st) (aupd a l (s_ai st)) (s_af st).
Definition set_af (st : state) (a : string) (l : list T) : state :=
  mkState (s_i st) (s_f st) (s_ai st) (aupd a l (s_af st)).

Definition get_i (st : state) (x : string) : result Z := of_opt (Unbound x) (alookup x (s_i st)).
Definition get_f (st : state) (x : string) : result T := of_opt (Unbound x) (alookup x (s_f st)).
Definition get_ai (st : state) (a : string) : result (list Z) := of_opt (Unbound a) (alookup a (s_ai st)).
Definition get_af (st : state) (a : string) : result (list T) := of_opt (Unbound a) (alookup a (s_af st)).

Definition read_i (st : state) (a : string) (i : Z) : result Z :=
  do l <- get_ai st a; of_opt (OOB a i) (zget l i).
Definition read_f (st : state) (a : string) (i : Z) : result T :=
  do l <- get_af st a; of_opt (OOB a i) (zget l i).
Definition write_i (st : state) (a : string) (i : Z) (v : Z) : result state :=
  do l <- get_ai st a; do l' <- of_opt (OOB a i) (zset l i v); Ok (set_ai st a l').
Definition write_f (st : state) (a : string) (i : Z) (v : T) : result state :=
  do l <- get_af st a; do l' <- of_opt (OOB a i) (zset l i v); Ok (set_af st a l').

(* ------------------------------------------------------------------ *)
(* literals and libm functions outside NumOps                           *)

Record NumLit := mkNumLit {
  nlit : float -> Z -> positive -> T;
  next : string -> list T -> option T }.

Variable N : NumOps T.
Variable X : NumLit.

(* ------------------------------------------------------------------ *)
(* operators                                                            *)

Definition b2z (b : bool) : Z := if b then 1 else 0.
Definition truth (z : Z) : bool := negb (z =? 0).

Definition in_width (w : width) (z : Z) : bool :=
  match w with
  | W32 => (-2147483648 <=? z) && (z <=? 2147483647)
  | W64 => (-9223372036854775808 <=? z) && (z <=? 9223372036854775807)
  end.

Definition sem_iun (op : iunop) (z : Z) : Z :=
  match op with
  | INeg => - z
  | IBitNot => Z.lnot z
  | ILNot => b2z (z =? 0)
  end.

Definition sem_ibin (op : ibinop) (a b : Z) : result Z :=
  match op with
  | IAdd => Ok (a + b)
  | ISub => Ok (a - b)
  | IMul => Ok (a * b)
  | IDiv => if b =? 0 then Err DivZero else Ok (Z.quot a b)
  | IRem => if b =? 0 then Err DivZero else Ok (Z.rem a b)
  | IBitOr => Ok (Z.lor a b)
  | IBitAnd => Ok (Z.land a b)
  end.

Definition sem_cmp (op : cmpop) (a b : Z) : bool :=
  match op with
  | CLt => a <? b | CLe => a <=? b | CGt => b <? a | CGe => b <=? a
  | CEq => a =? b | CNe => negb (a =? b)
  end.

Definition sem_fcmp (op : cmpop) (a b : T) : bool :=
  match op with
  | CLt => nltb N a b | CLe => nleb N a b | CGt => nltb N b a | CGe => nleb N b a
  | CEq => neqb N a b | CNe => negb (neqb N a b)
  end.

Definition sem_fun (op : funop) (a : T) : T :=
  match op with FNeg => nopp N a | FSqrt => nsqrt N a | FAbs => nabs N a end.

(* fmin/fmax of C99: a NaN operand is ignored *)
Definition sem_fmin (a b : T) : T :=
  if nisnan N a then b else if nisnan N b then a else if nltb N b a then b else a.
Definition sem_fmax (a b : T) : T :=
  if nisnan N a then b else if nisnan N b then a else if nltb N a b then b else a.

Definition sem_fbin (op : fbinop) (a b : T) : T :=
  match op with
  | FAdd => nadd N a b | FSub => nsub N a b | FMul => nmul N a b | FDiv => ndiv N a b
  | FMin => sem_fmin a b | FMax => sem_fmax a b
  end.

Definition sem_cast (w : width) (o : option Z) : result Z :=
  match o with
  | Some z => if in_width w z then Ok z else Err CastRange
  | None => Err CastRange
  end.

(* ------------------------------------------------------------------ *)
(* expressions                                                          *)

Fixpoint eval_i (st : state) (e : iexp) {struct e} : result Z :=
  match e with
  | IConst z => Ok z
  | IVar x => get_i st x
  | IArr a i => do k <- eval_i st i; read_i st a k
  | IUn op a => do v <- eval_i st a; Ok (sem_iun op v)
  | IBin op a b => do va <- eval_i st a; do vb <- eval_i st b; sem_ibin op va vb
  | ICmp op a b => do va <- eval_i st a; do vb <- eval_i st b; Ok (b2z (sem_cmp op va vb))
  | IFCmp op a b => do va <- eval_f st a; do vb <- eval_f st b; Ok (b2z (sem_fcmp op va vb))
  | IAnd a b => do va <- eval_i st a;
                if truth va then (do vb <- eval_i st b; Ok (b2z (truth vb))) else Ok 0
  | IOr a b => do va <- eval_i st a;
               if truth va then Ok 1 else (do vb <- eval_i st b; Ok (b2z (truth vb)))
  | ICond c a b => do vc <- eval_i st c; if truth vc then eval_i st a else eval_i st b
  | ITrunc w f => do v <- eval_f st f; sem_cast w (ntrunc N v)
  | IFloor w f => do v <- eval_f st f; sem_cast w (nfloor N v)
  | IIsnan f => do v <- eval_f st f; Ok (b2z (nisnan N v))
  | IChk w a => do v <- eval_i st a;
                if in_width w v then Ok v
                else Err (Overflow (match w with W32 => true | W64 => false end) v)
  end
with eval_f (st : state) (e : fexp) {struct e} : result T :=
  match e with
  | FLit b n d => Ok (nlit X b n d)
  | FNan => Ok (nnan N)
  | FVar x => get_f st x
  | FArr a i => do k <- eval_i st i; read_f st a k
  | FUn op a => do v <- eval_f st a; Ok (sem_fun op v)
  | FBin op a b => do va <- eval_f st a; do vb <- eval_f st b; Ok (sem_fbin op va vb)
  | FOfInt a => do v <- eval_i st a; Ok (nofZ N v)
  | FCond c a b => do vc <- eval_i st c; if truth vc then eval_f st a else eval_f st b
  | FExt1 f a => do v <- eval_f st a; of_opt (NoExt f) (next X f [v])
  | FExt2 f a b => do va <- eval_f st a; do vb <- eval_f st b; of_opt (NoExt f) (next X f [va; vb])
  end.

Fixpoint eval_ilist (st : state) (l : list iexp) : result (list Z) :=
  match l with
  | [] => Ok []
  | e :: r => do v <- eval_i st e; do vs <- eval_ilist st r; Ok (v :: vs)
  end.
Fixpoint eval_flist (st : state) (l : list fexp) : result (list T) :=
  match l with
  | [] => Ok []
  | e :: r => do v <- eval_f st e; do vs <- eval_flist st r; Ok (v :: vs)
  end.

(* ------------------------------------------------------------------ *)
(* loops                                                                *)

(* one combinator for while and for: [cond] and [body] are state functions;
   one unit of fuel per evaluation of the condition *)
Fixpoint loop (fuel : nat) (cond : state -> result bool)
         (body : state -> result (outcome * state)) (st : state)
  : result (outcome * state) :=
  match fuel with
  | O => Err OutOfFuel
  | S f =>
      match cond st with
      | Err e => Err e
      | Ok false => Ok (ONormal, st)
      | Ok true =>
          match body st with
          | Err e => Err e
          | Ok (ONormal, st') => loop f cond body st'
          | Ok (OContinue, st') => loop f cond body st'
          | Ok (OBreak, st') => Ok (ONormal, st')
          | Ok (ORet v, st') => Ok (ORet v, st')
          end
      end
  end.

(* ------------------------------------------------------------------ *)
(* calls                                                                *)

(* the callee: name, actual arguments -> return value and the final contents
   of its array parameters (in parameter order) *)
Definition callee := string -> list argval -> result (retval * list arrval).

Fixpoint eval_args (st : state) (l : list arg) : result (list argval) :=
  match l with
  | [] => Ok []
  | a :: r =>
      do v <- match a with
              | AI e => do z <- eval_i st e; Ok (AVI z)
              | AF e => do x <- eval_f st e; Ok (AVF x)
              | AArrI n off =>
                  do k <- eval_i st off; do arr <- get_ai st n;
                  if (k <? 0) || (zlen arr <? k) then Err (OOB n k)
                  else Ok (AVArrI (skipn (Z.to_nat k) arr))
              | AArrF n off =>
                  do k <- eval_i st off; do arr <- get_af st n;
                  if (k <? 0) || (zlen arr <? k) then Err (OOB n k)
                  else Ok (AVArrF (skipn (Z.to_nat k) arr))
              end;
      do vs <- eval_args st r; Ok (v :: vs)
  end.

Fixpoint arr_names (l : list arg) : list string :=
  match l with
  | [] => []
  | AArrI n _ :: r => n :: arr_names r
  | AArrF n _ :: r => n :: arr_names r
  | _ :: r => arr_names r
  end.

Fixpoint first_dup (l : list string) : option string :=
  match l with
  | [] => None
  | x :: r => if existsb (String.eqb x) r then Some x else first_dup r
  end.

(* copy the callee's final arrays back (from the offset they were passed at) *)
Fixpoint write_back (f : string) (st : state) (l : list arg) (outs : list arrval) : result state :=
  match l with
  | [] => match outs with [] => Ok st | _ => Err (BadArgs f) end
  | AArrI n off :: r =>
      match outs with
      | VArrI o :: outs' =>
          do k <- eval_i st off; do arr <- get_ai st n;
          write_back f (set_ai st n (firstn (Z.to_nat k) arr ++ o)) r outs'
      | _ => Err (BadArgs f)
      end
  | AArrF n off :: r =>
      match outs with
      | VArrF o :: outs' =>
          do k <- eval_i st off; do arr <- get_af st n;
          write_back f (set_af st n (firstn (Z.to_nat k) arr ++ o)) r outs'
      | _ => Err (BadArgs f)
      end
  | _ :: r => write_back f st r outs
  end.

Definition assign_ret (f : string) (st : state) (d : dest) (v : retval) : result state :=
  match d, v with
  | DNone, _ => Ok st
  | DI x, RI z => Ok (set_i st x z)
  | DF x, RF y => Ok (set_f st x y)
  | DF x, RI z => Ok (set_f st x (nofZ N z))    (* double = int-valued function *)
  | _, _ => Err (BadRet f)
  end.

(* ------------------------------------------------------------------ *)
(* qsort = glibc msort_with_tmp                                         *)

Section Sort.
Context {A : Type}.
Variable cmp : A -> A -> result Z.

Fixpoint mergeM (fuel : nat) (l1 l2 : list A) : result (list A) :=
  match fuel with
  | O => Err OutOfFuel
  | S f =>
      match l1, l2 with
      | [], _ => Ok l2
      | _, [] => Ok l1
      | x :: r1, y :: r2 =>
          do c <- cmp x y;
          if c <=? 0 then (do r <- mergeM f r1 l2; Ok (x :: r))
          else (do r <- mergeM f l1 r2; Ok (y :: r))
      end
  end.

Fixpoint msortM (fuel : nat) (l : list A) : result (list A) :=
  match fuel with
  | O => Err OutOfFuel
  | S f =>
      let n := List.length l in
      if Nat.leb n 1 then Ok l
      else
        let n1 := Nat.div2 n in
        do a <- msortM f (firstn n1 l);
        do b <- msortM f (skipn n1 l);
        mergeM (S n) a b
  end.
End Sort.

Fixpoint chunks {A} (k : nat) (n : nat) (l : list A) : list (list A) :=
  match n with
  | O => []
  | S n' => firstn k l :: chunks k n' (skipn k l)
  end.

Definition cmp_call {A} (callf : callee) (cmpf : string) (mk : list A -> argval)
           (a b : list A) : result Z :=
  do r <- callf cmpf [mk a; mk b];
  match fst r with RI z => Ok z | _ => Err (BadRet cmpf) end.

Definition qsort_list {A} (callf : callee) (cmpf : string) (mk : list A -> argval)
           (name : string) (n k : Z) (l : list A) : result (list A) :=
  if (n <? 0) || (k <? 1) || (zlen l <? n * k) then Err (OOB name (n * k))
  else
    let items := chunks (Z.to_nat k) (Z.to_nat n) l in
    do sorted <- msortM (cmp_call callf cmpf mk) (S (Z.to_nat n)) items;
    Ok (List.concat sorted ++ skipn (Z.to_nat (n * k)) l).

(* ------------------------------------------------------------------ *)
(* statements                                                           *)

Section Exec.
Variable callf : callee.

Definition cond_of (c : iexp) (st : state) : result bool :=
  do v <- eval_i st c; Ok (truth v).

Definition new_arr {A} (name : string) (n : Z) (zero : A) (init : list A) : result (list A) :=
  if n <? 0 then Err (NegSize name)
  else if n <? zlen init then Err (OOB name n)
  else Ok (init ++ zrepeat zero (n - zlen init)).

(* body of a for loop: the step runs after a normal end of the body and after `continue` *)
Definition for_body (ebody estep : state -> result (outcome * state)) (st : state)
  : result (outcome * state) :=
  match ebody st with
  | Ok (ONormal, st2) => estep st2
  | Ok (OContinue, st2) => estep st2
  | r => r
  end.

Fixpoint exec (fuel : nat) (s : stmt) (st : state) {struct s} : result (outcome * state) :=
  match s with
  | SSkip => Ok (ONormal, st)
  | SSeq a b =>
      match exec fuel a st with
      | Ok (ONormal, st') => exec fuel b st'
      | r => r
      end
  | SSetI x e => do v <- eval_i st e; Ok (ONormal, set_i st x v)
  | SSetF x e => do v <- eval_f st e; Ok (ONormal, set_f st x v)
  | SStoreI a i e =>
      do k <- eval_i st i; do v <- eval_i st e; do st' <- write_i st a k v; Ok (ONormal, st')
  | SStoreF a i e =>
      do k <- eval_i st i; do v <- eval_f st e; do st' <- write_f st a k v; Ok (ONormal, st')
  | SNewI a n init =>
      do k <- eval_i st n; do vs <- eval_ilist st init;
      do l <- new_arr a k 0 vs; Ok (ONormal, set_ai st a l)
  | SNewF a n init =>
      do k <- eval_i st n; do vs <- eval_flist st init;
      do l <- new_arr a k (n0 N) vs; Ok (ONormal, set_af st a l)
  | SIf c a b =>
      do v <- eval_i st c; if truth v then exec fuel a st else exec fuel b st
  | SWhile c b => loop fuel (cond_of c) (exec fuel b) st
  | SFor c step b =>
      loop fuel (cond_of c) (for_body (exec fuel b) (exec fuel step)) st
  | SBreak => Ok (OBreak, st)
  | SContinue => Ok (OContinue, st)
  | SRetI e => do v <- eval_i st e; Ok (ORet (RI v), st)
  | SRetF e => do v <- eval_f st e; Ok (ORet (RF v), st)
  | SCall d f args =>
      match first_dup (arr_names args) with
      | Some a => Err (Alias a)
      | None =>
          do vs <- eval_args st args;
          do r <- callf f vs;
          do st1 <- write_back f st args (snd r);
          do st2 <- assign_ret f st1 d (fst r);
          Ok (ONormal, st2)
      end
  | SQsortI a n k cmpf =>
      do nv <- eval_i st n; do l <- get_ai st a;
      do l' <- qsort_list callf cmpf AVArrI a nv k l; Ok (ONormal, set_ai st a l')
  | SQsortF a n k cmpf =>
      do nv <- eval_i st n; do l <- get_af st a;
      do l' <- qsort_list callf cmpf AVArrF a nv k l; Ok (ONormal, set_af st a l')
  end.

End Exec.

(* ------------------------------------------------------------------ *)
(* functions                                                            *)

Fixpoint bind_params (f : string) (ps : list param) (vs : list argval) (st : state) : result state :=
  match ps, vs with
  | [], [] => Ok st
  | PI x :: ps', AVI z :: vs' => bind_params f ps' vs' (set_i st x z)
  | PF x :: ps', AVF y :: vs' => bind_params f ps' vs' (set_f st x y)
  | PArrI a :: ps', AVArrI l :: vs' => bind_params f ps' vs' (set_ai st a l)
  | PArrF a :: ps', AVArrF l :: vs' => bind_params f ps' vs' (set_af st a l)
  | _, _ => Err (BadArgs f)
  end.

Fixpoint out_arrays (ps : list param) (st : state) : result (list arrval) :=
  match ps with
  | [] => Ok []
  | PArrI a :: r => do l <- get_ai st a; do o <- out_arrays r st; Ok (VArrI l :: o)
  | PArrF a :: r => do l <- get_af st a; do o <- out_arrays r st; Ok (VArrF l :: o)
  | _ :: r => out_arrays r st
  end.

Definition find_fun (p : program) (f : string) : result (list param * stmt) :=
  match alookup f p with
  | Some (Fun ps body) => Ok (ps, body)
  | _ => Err (NoFun f)
  end.

(* run function [f] of program [p] on [args]: the return value and the final
   contents of its array parameters.  One unit of fuel per call level; the
   loops of the body get the remaining fuel (each loop separately). *)
Fixpoint exec_fun (p : program) (fuel : nat) (f : string) (args : list argval)
  : result (retval * list arrval) :=
  match fuel with
  | O => Err OutOfFuel
  | S n =>
      do fd <- find_fun p f;
      do st0 <- bind_params f (fst fd) args st_empty;
      match exec (exec_fun p n) n (snd fd) st0 with
      | Ok (ORet v, st) => do o <- out_arrays (fst fd) st; Ok (v, o)
      | Ok (_, _) => Err (BadRet f)
      | Err e => Err e
      end
  end.

End Sem.

(* symbolic execution by cbn: a statement is executed only when applied to a
   state, so that the bodies of loops stay folded as [exec ... body] *)
Arguments exec {T} N X callf fuel !s st /.
Arguments for_body {T} ebody estep st /.
Arguments cond_of {T} N X c st /.

Arguments argval : clear implicits.
Arguments arrval : clear implicits.
Arguments retval : clear implicits.
Arguments outcome : clear implicits.
Arguments state : clear implicits.
Arguments NumLit : clear implicits.
Arguments callee : clear implicits.

(* ------------------------------------------------------------------ *)
(* instances of NumLit                                                  *)

(* floor as a double: exact ([f_floor] is exact below 2^63, where its result is
   representable; a finite double of larger magnitude is an integer; NaN and the
   infinities are returned unchanged).  floor(-0.0) is +0 here, -0.0 in C: the
   comparators of the tie ignore the sign of zero. *)
Definition f_floorf (x : float) : float :=
  match f_floor x with Some z => f_ofZ z | None => x end.

Definition F64_ext (f : string) (l : list float) : option float :=
  match l with
  | [x] => if String.eqb f "floor" then Some (f_floorf x) else None
  | _ => None
  end.

Definition XF64 : NumLit float := {| nlit := fun b _ _ => b; next := F64_ext |}.

Definition R_ext (f : string) (l : list R) : option R :=
  match l with
  | [x] => if String.eqb f "exp" then Some (exp x)
           else if String.eqb f "log" then Some (ln x)
           else if String.eqb f "floor" then Some (IZR (Int_part x))
           else None
  | _ => None
  end.
Definition lit_R (n : Z) (d : positive) : R := (IZR n / IZR (Zpos d))%R.
Definition XRR : NumLit R := {| nlit := fun _ n d => lit_R n d; next := R_ext |}.
Definition XRN : NumLit (option R) :=
  {| nlit := fun _ n d => Some (lit_R n d);
     next := fun f l => match l with
                        | [Some x] => match R_ext f [x] with Some y => Some (Some y) | None => None end
                        | [None] => Some None
                        | _ => None
                        end |}.

(* ================================================================== *)
(* Lemmas for symbolic execution                                        *)
(* ================================================================== *)

(* keep integer arithmetic on symbolic values folded under cbn / simpl *)
#[global] Arguments Z.add : simpl nomatch.
#[global] Arguments Z.sub : simpl nomatch.
#[global] Arguments Z.mul : simpl nomatch.
#[global] Arguments Z.opp : simpl nomatch.
#[global] Arguments Z.quot : simpl nomatch.
#[global] Arguments Z.rem : simpl nomatch.
#[global] Arguments Z.ltb : simpl nomatch.
#[global] Arguments Z.leb : simpl nomatch.
#[global] Arguments Z.eqb : simpl nomatch.
#[global] Arguments Z.compare : simpl nomatch.
#[global] Arguments Z.lnot : simpl nomatch.
#[global] Arguments Z.lor : simpl nomatch.
#[global] Arguments Z.land : simpl nomatch.
#[global] Arguments Z.to_nat : simpl nomatch.
#[global] Arguments Z.of_nat : simpl never.

Lemma bind_ok {A B} (r : result A) (f : A -> result B) a : r = Ok a -> bind r f = f a.
Proof. intros ->; reflexivity. Qed.

(* ---- arrays ---- *)

Lemma zlen_eq {A} (l : list A) : zlen l = Z.of_nat (List.length l).
Proof. induction l as [|x r IH]; [reflexivity|]. cbn [zlen List.length]. rewrite IH. lia. Qed.

Lemma zrepeat_eq {A} (x : A) (n : Z) : zrepeat x n = repeat x (Z.to_nat n).
Proof.
  destruct n as [|p|p]; try reflexivity. unfold zrepeat.
  rewrite Pos2Nat.inj_iter. change (Z.to_nat (Z.pos p)) with (Pos.to_nat p).
  induction (Pos.to_nat p) as [|k IH]; [reflexivity|]. simpl. rewrite IH. reflexivity.
Qed.

Lemma zget_ok {A} (l : list A) (i : Z) (d : A) :
  0 <= i < Z.of_nat (List.length l) -> zget l i = Some (nth (Z.to_nat i) l d).
Proof.
  revert i; induction l as [|x r IH]; intros i H; simpl in H; [lia|].
  simpl. destruct (Z.eqb_spec i 0) as [->|Hne]; [reflexivity|].
  rewrite IH by lia. replace (Z.to_nat i) with (S (Z.to_nat (i - 1))) by lia. reflexivity.
Qed.

Lemma zget_none {A} (l : list A) (i : Z) :
  i < 0 \/ Z.of_nat (List.length l) <= i -> zget l i = None.
Proof.
  revert i; induction l as [|x r IH]; intros i H; simpl; [reflexivity|].
  simpl in H. destruct (Z.eqb_spec i 0) as [->|Hne]; [lia|]. apply IH. lia.
Qed.

Lemma zset_ok {A} (l : list A) (i : Z) (v : A) :
  0 <= i < Z.of_nat (List.length l) ->
  zset l i v = Some (firstn (Z.to_nat i) l ++ v :: skipn (S (Z.to_nat i)) l).
Proof.
  revert i; induction l as [|x r IH]; intros i H; simpl in H; [lia|].
  simpl. destruct (Z.eqb_spec i 0) as [->|Hne]; [reflexivity|].
  rewrite IH by lia. replace (Z.to_nat i) with (S (Z.to_nat (i - 1))) by lia. reflexivity.
Qed.

Lemma zset_none {A} (l : list A) (i : Z) (v : A) :
  i < 0 \/ Z.of_nat (List.length l) <= i -> zset l i v = None.
Proof.
  revert i; induction l as [|x r IH]; intros i H; simpl; [reflexivity|].
  simpl in H. destruct (Z.eqb_spec i 0) as [->|Hne]; [lia|]. rewrite IH by lia. reflexivity.
Qed.

Lemma zset_length {A} (l l' : list A) i v : zset l i v = Some l' -> List.length l' = List.length l.
Proof.
  revert i l'; induction l as [|x r IH]; intros i l'; simpl; [intros H; discriminate H|].
  destruct (i =? 0); [intros [= <-]; reflexivity|].
  destruct (zset r (i - 1) v) eqn:E; [|intros H; discriminate H].
  intros [= <-]. simpl. f_equal. eauto.
Qed.

(* writing at the end of a prefix that is being filled: l = done ++ x :: rest *)
Lemma zset_cons {A} (x : A) r i v : i <> 0 ->
  zset (x :: r) i v = match zset r (i - 1) v with Some r' => Some (x :: r') | None => None end.
Proof. intros H. cbn [zset]. destruct (Z.eqb_spec i 0); [contradiction|reflexivity]. Qed.
Lemma zget_cons {A} (x : A) r i : i <> 0 -> zget (x :: r) i = zget r (i - 1).
Proof. intros H. cbn [zget]. destruct (Z.eqb_spec i 0); [contradiction|reflexivity]. Qed.

Lemma zset_app {A} (done rest : list A) (x v : A) (i : Z) :
  i = Z.of_nat (List.length done) ->
  zset (done ++ x :: rest) i v = Some (done ++ v :: rest).
Proof.
  intros ->. induction done as [|y d IH]; [reflexivity|].
  cbn [app List.length]. rewrite zset_cons by lia.
  replace (Z.of_nat (S (List.length d)) - 1) with (Z.of_nat (List.length d)) by lia.
  rewrite IH. reflexivity.
Qed.

Lemma zget_app {A} (done rest : list A) (x : A) (i : Z) :
  i = Z.of_nat (List.length done) -> zget (done ++ x :: rest) i = Some x.
Proof.
  intros ->. induction done as [|y d IH]; [reflexivity|].
  cbn [app List.length]. rewrite zget_cons by lia.
  replace (Z.of_nat (S (List.length d)) - 1) with (Z.of_nat (List.length d)) by lia.
  exact IH.
Qed.

Lemma zset_app_off {A} (P Q : list A) (i j : Z) (v : A) :
  i = Z.of_nat (List.length P) + j -> 0 <= j ->
  zset (P ++ Q) i v = match zset Q j v with Some q => Some (P ++ q) | None => None end.
Proof.
  intros -> Hj. induction P as [|x P IH]; cbn [app List.length].
  - replace (Z.of_nat 0 + j) with j by lia. destruct (zset Q j v); reflexivity.
  - rewrite zset_cons by lia.
    replace (Z.of_nat (S (List.length P)) + j - 1) with (Z.of_nat (List.length P) + j) by lia.
    rewrite IH. destruct (zset Q j v); reflexivity.
Qed.

Lemma zget_app_off {A} (P Q : list A) (i j : Z) :
  i = Z.of_nat (List.length P) + j -> 0 <= j -> zget (P ++ Q) i = zget Q j.
Proof.
  intros -> Hj. induction P as [|x P IH]; cbn [app List.length].
  - f_equal; lia.
  - rewrite zget_cons by lia.
    replace (Z.of_nat (S (List.length P)) + j - 1) with (Z.of_nat (List.length P) + j) by lia.
    exact IH.
Qed.

Lemma zget_app_l {A} (P Q : list A) (i : Z) :
  0 <= i < Z.of_nat (List.length P) -> zget (P ++ Q) i = zget P i.
Proof.
  revert i; induction P as [|x P IH]; intros i H; cbn [app List.length] in *; [lia|].
  cbn [zget]. destruct (Z.eqb_spec i 0); [reflexivity|]. apply IH. lia.
Qed.

Lemma zset_app_l {A} (P Q : list A) (i : Z) (v : A) :
  0 <= i < Z.of_nat (List.length P) ->
  zset (P ++ Q) i v = match zset P i v with Some p => Some (p ++ Q) | None => None end.
Proof.
  revert i; induction P as [|x P IH]; intros i H; cbn [app List.length] in *; [lia|].
  cbn [zset]. destruct (Z.eqb_spec i 0); [reflexivity|].
  rewrite IH by lia. destruct (zset P (i - 1) v); reflexivity.
Qed.

Lemma truth_b2z b : truth (b2z b) = b.
Proof. destruct b; reflexivity. Qed.

Lemma b2z_truth_b2z b : b2z (truth (b2z b)) = b2z b.
Proof. destruct b; reflexivity. Qed.

(* the shapes left by [IOr] / [IAnd] / [ICond] / [SIf] once both sides are evaluated *)
Lemma or_ok (a b : bool) :
  (if a then Ok 1 else Ok (b2z b)) = Ok (b2z (a || b)) :> result Z.
Proof. destruct a; reflexivity. Qed.
Lemma and_ok (a b : bool) :
  (if a then Ok (b2z b) else Ok 0) = Ok (b2z (a && b)) :> result Z.
Proof. destruct a; reflexivity. Qed.
Lemma if_ok {A} (b : bool) (x y : A) :
  (if b then Ok x else Ok y) = Ok (if b then x else y).
Proof. destruct b; reflexivity. Qed.
Lemma if_same {A} (b : bool) (x : A) : (if b then x else x) = x.
Proof. destruct b; reflexivity. Qed.

(* ---- the loop rule ---- *)

Section LoopRule.
Context {T : Type}.
Notation state := (state T).
Notation outcome := (outcome T).

(* [Inv k st]: the invariant after k iterations; [m] bounds the number of
   iterations; [Post] is established when the loop ends (condition false,
   break, or return). *)
Lemma loop_rule (Inv : nat -> state -> Prop) (Post : outcome * state -> Prop) (m : nat)
      (cond : state -> result bool) (body : state -> result (outcome * state)) :
  (forall k st, Inv k st ->
     (k <= m)%nat /\
     match cond st with
     | Ok false => Post (ONormal, st)
     | Ok true =>
         match body st with
         | Ok (ONormal, st') => Inv (S k) st'
         | Ok (OContinue, st') => Inv (S k) st'
         | Ok (OBreak, st') => Post (ONormal, st')
         | Ok (ORet v, st') => Post (ORet v, st')
         | Err _ => False
         end
     | Err _ => False
     end) ->
  forall fuel k st, Inv k st -> (m < fuel + k)%nat ->
  exists r, loop fuel cond body st = Ok r /\ Post r.
Proof.
  intros Hstep fuel. induction fuel as [|f IH]; intros k st HI Hf.
  - destruct (Hstep k st HI) as [Hk _]. lia.
  - destruct (Hstep k st HI) as [Hk H]. simpl.
    destruct (cond st) as [[|]|]; try contradiction.
    + destruct (body st) as [[[| | |v] st']|]; try contradiction.
      * apply (IH (S k) st' H). lia.
      * eexists; split; [reflexivity|exact H].
      * apply (IH (S k) st' H). lia.
      * eexists; split; [reflexivity|exact H].
    + eexists; split; [reflexivity|exact H].
Qed.

(* deterministic form: the loop result is the given [r] *)
Lemma loop_rule_eq (Inv : nat -> state -> Prop) (r : outcome * state) (m : nat)
      (cond : state -> result bool) (body : state -> result (outcome * state)) :
  (forall k st, Inv k st ->
     (k <= m)%nat /\
     match cond st with
     | Ok false => (ONormal, st) = r
     | Ok true =>
         match body st with
         | Ok (ONormal, st') => Inv (S k) st'
         | Ok (OContinue, st') => Inv (S k) st'
         | Ok (OBreak, st') => (ONormal, st') = r
         | Ok (ORet v, st') => (ORet v, st') = r
         | Err _ => False
         end
     | Err _ => False
     end) ->
  forall fuel st, Inv O st -> (m < fuel)%nat ->
  loop fuel cond body st = Ok r.
Proof.
  intros Hstep fuel st HI Hf.
  destruct (loop_rule Inv (fun x => x = r) m cond body Hstep fuel O st HI) as [r' [E HP]];
    [lia|]. simpl in HP. subst r'. exact E.
Qed.

(* more fuel does not change a successful loop *)
Lemma loop_mono (cond : state -> result bool) (body : state -> result (outcome * state)) :
  forall f st r, loop f cond body st = Ok r -> forall f', (f <= f')%nat -> loop f' cond body st = Ok r.
Proof.
  induction f as [|f IH]; intros st r H f' Hle; simpl in H; [discriminate|].
  destruct f' as [|f']; [lia|]. simpl.
  destruct (cond st) as [[|]|]; try discriminate; [|exact H].
  destruct (body st) as [[[| | |v] st']|]; try discriminate; try exact H;
    apply (IH _ _ H); lia.
Qed.

End LoopRule.

(* ------------------------------------------------------------------ *)
(* tactics for symbolic execution (see notes/MINIC.md, HOWTO)           *)

(* decide the integer comparisons of the goal that follow from the context *)
Ltac zb1 :=
  match goal with
  | |- context[Z.eqb ?a ?b] =>
      first [ replace (Z.eqb a b) with true by (symmetry; apply Z.eqb_eq; lia)
            | replace (Z.eqb a b) with false by (symmetry; apply Z.eqb_neq; lia) ]
  | |- context[Z.ltb ?a ?b] =>
      first [ replace (Z.ltb a b) with true by (symmetry; apply Z.ltb_lt; lia)
            | replace (Z.ltb a b) with false by (symmetry; apply Z.ltb_ge; lia) ]
  | |- context[Z.leb ?a ?b] =>
      first [ replace (Z.leb a b) with true by (symmetry; apply Z.leb_le; lia)
            | replace (Z.leb a b) with false by (symmetry; apply Z.leb_gt; lia) ]
  end.
Ltac zb := repeat zb1.

(* run the interpreter as far as the symbolic data allows *)
Ltac mc_step := cbn; rewrite ?truth_b2z, ?b2z_truth_b2z, ?or_ok, ?and_ok.
Ltac mc := repeat (progress (mc_step; zb)).

(* state merging after a conditional whose condition stays symbolic:
   [if b then C[x] else C[y]]  ~>  [C[if b then x else y]]  (anti-unification of the
   two branches), so that the execution continues on one state instead of two *)
Ltac merge_terms b A B :=
  lazymatch A with
  | B => A
  | ?f ?x =>
      lazymatch B with
      | ?g ?y =>
          let fg := merge_terms b f g in
          let xy := merge_terms b x y in
          constr:(fg xy)
      | _ => constr:(if b then A else B)
      end
  | _ => constr:(if b then A else B)
  end.
Ltac merge_if :=
  match goal with
  | |- context[if ?b then Ok ?A else Ok ?B] =>
      let t := merge_terms b A B in
      replace (if b then Ok A else Ok B) with (Ok t) by (destruct b; reflexivity)
  end.

(* states as literal records: [set_i (set_i st "x" a) "y" b] ~> [{| s_i := [...]; ... |}] *)
Ltac norm_state :=
  cbv [set_i set_f set_ai set_af aupd s_i s_f s_ai s_af st_empty
       String.eqb Ascii.eqb Bool.eqb].

(* name the (first) loop of the goal and prove its result with [loop_rule]:
   leaves  (1) the step obligation, (2) [Inv 0 st0], (3) the fuel bound,
   (4) the original goal with [HL : exists r, loop ... = Ok r /\ Post r] *)
Ltac loop_with Inv Post m :=
  match goal with
  | |- context[loop ?f ?c ?b ?s] =>
      let HL := fresh "HL" in
      assert (HL : exists r, loop f c b s = Ok r /\ Post r);
      [ apply (loop_rule Inv Post m c b) with (k := O) | ]
  end.

(* ------------------------------------------------------------------ *)
(* comparators of the tie with the compiled kernels (binary64)          *)

Definition arrval_same (a b : arrval float) : bool :=
  match a, b with
  | VArrI l1, VArrI l2 => list_same Z.eqb l1 l2
  | VArrF l1, VArrF l2 => list_same f_same l1 l2
  | _, _ => false
  end.

(* expected return value: exact integer, a positive error code (its value
   depends on __LINE__: only the class is compared), or a double *)
Inductive retexp := ExpI (z : Z) | ExpPos | ExpF (x : float).

Definition ret_same (r : retval float) (e : retexp) : bool :=
  match r, e with
  | RI z, ExpI z' => z =? z'
  | RI z, ExpPos => 0 <? z
  | RF x, ExpF y => f_same x y
  | _, _ => false
  end.

Record tcase := mkTcase {
  tc_fun : string;
  tc_args : list (argval float);
  tc_ret : retexp;
  tc_outs : list (arrval float) }.

(* verdict: 0 = agreement, 1 = different result, 2 = the interpreter stopped with an error *)
Definition tie_verdict (p : program) (fuel : nat) (c : tcase) : Z :=
  match exec_fun F64 XF64 p fuel (tc_fun c) (tc_args c) with
  | Ok (r, outs) => if ret_same r (tc_ret c) && list_same arrval_same outs (tc_outs c) then 0 else 1
  | Err _ => 2
  end.

Definition tie_ok (p : program) (fuel : nat) (c : tcase) : bool := tie_verdict p fuel c =? 0.
