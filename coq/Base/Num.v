(* Arithmetic interface shared by every numeric model.

   Each numeric kernel is written ONCE over a record of operations [NumOps T]
   and instantiated twice:
     - [F64] : IEEE-754 binary64 ([PrimFloat]); used only to RUN the model in
       the correspondence check (bit-exact with the gcc-compiled kernels);
     - [RR]  : the real numbers; used only to STATE and PROVE theorems.
   No theorem is stated about [F64]. *)
From Coq Require Import ZArith Bool List Reals.
From Coq Require Import PrimFloat Uint63 FloatOps SpecFloat.
Import ListNotations.

Record NumOps (T : Type) := mkNumOps {
  n0 : T; n1 : T;
  nadd : T -> T -> T; nsub : T -> T -> T; nmul : T -> T -> T; ndiv : T -> T -> T;
  nopp : T -> T;
  nltb : T -> T -> bool; nleb : T -> T -> bool; neqb : T -> T -> bool;
  nisnan : T -> bool;
  nsqrt : T -> T; nabs : T -> T;
  nnan : T;                 (* the value a kernel stores for "missing" *)
  nofZ : Z -> T;
  ntrunc : T -> option Z;   (* C cast (long long)x : None when NaN/inf/out of range *)
  nfloor : T -> option Z
}.
Arguments n0 {T}. Arguments n1 {T}. Arguments nadd {T}. Arguments nsub {T}.
Arguments nmul {T}. Arguments ndiv {T}. Arguments nopp {T}.
Arguments nltb {T}. Arguments nleb {T}. Arguments neqb {T}. Arguments nisnan {T}.
Arguments nsqrt {T}. Arguments nabs {T}. Arguments nnan {T}. Arguments nofZ {T}.
Arguments ntrunc {T}. Arguments nfloor {T}.

(* ------------------------------------------------------------------ *)
(* binary64 instance                                                    *)

Definition f_ofZ (z : Z) : float :=
  match z with
  | Z0 => PrimFloat.zero
  | Zpos _ => SF2Prim (binary_normalize prec emax z 0 false)
  | Zneg _ => SF2Prim (binary_normalize prec emax z 0 false)
  end.

(* truncation toward zero of a finite float whose magnitude is < 2^63 *)
Definition f_trunc (x : float) : option Z :=
  match Prim2SF x with
  | S754_zero _ => Some 0%Z
  | S754_finite s m e =>
      let mag := (if (0 <=? e)%Z then Z.shiftl (Zpos m) e
                  else Z.shiftr (Zpos m) (- e))%Z in
      if (mag <? 2 ^ 63)%Z then Some (if s then (- mag)%Z else mag) else None
  | _ => None
  end.

Definition f_floor (x : float) : option Z :=
  match f_trunc x with
  | Some z => if PrimFloat.ltb x (f_ofZ z) then Some (z - 1)%Z else Some z
  | None => None
  end.

Definition F64 : NumOps float := {|
  n0 := PrimFloat.zero; n1 := PrimFloat.one;
  nadd := PrimFloat.add; nsub := PrimFloat.sub;
  nmul := PrimFloat.mul; ndiv := PrimFloat.div;
  nopp := PrimFloat.opp;
  nltb := PrimFloat.ltb; nleb := PrimFloat.leb; neqb := PrimFloat.eqb;
  nisnan := PrimFloat.is_nan;
  nsqrt := PrimFloat.sqrt; nabs := PrimFloat.abs;
  nnan := PrimFloat.nan;
  nofZ := f_ofZ; ntrunc := f_trunc; nfloor := f_floor
|}.

(* ------------------------------------------------------------------ *)
(* real-number instance                                                 *)

Definition Rltb (x y : R) : bool := if Rlt_dec x y then true else false.
Definition Rleb (x y : R) : bool := if Rle_dec x y then true else false.
Definition Reqb (x y : R) : bool := if Req_EM_T x y then true else false.

(* floor and truncation on R through the standard library's [Int_part] *)
Definition R_floor (x : R) : option Z := Some (Int_part x).
Definition R_trunc (x : R) : option Z :=
  Some (if Rle_dec 0 x then Int_part x else (- Int_part (- x))%Z).

Definition RR : NumOps R := {|
  n0 := 0%R; n1 := 1%R;
  nadd := Rplus; nsub := Rminus; nmul := Rmult; ndiv := Rdiv;
  nopp := Ropp;
  nltb := Rltb; nleb := Rleb; neqb := Reqb;
  nisnan := fun _ => false;
  nsqrt := R_sqrt.sqrt; nabs := Rabs;
  nnan := 0%R;   (* never produced on NaN-free data; see each theorem's guard *)
  nofZ := IZR; ntrunc := R_trunc; nfloor := R_floor
|}.

Lemma Rltb_true x y : Rltb x y = true <-> (x < y)%R.
Proof. unfold Rltb; destruct (Rlt_dec x y); split; intros; auto; discriminate. Qed.
Lemma Rltb_false x y : Rltb x y = false <-> (y <= x)%R.
Proof. unfold Rltb; destruct (Rlt_dec x y); split; intros; auto; try discriminate.
  - exfalso; apply (Rlt_irrefl x); eapply Rlt_le_trans; eauto.
  - apply Rnot_lt_le; auto. Qed.
Lemma Rleb_true x y : Rleb x y = true <-> (x <= y)%R.
Proof. unfold Rleb; destruct (Rle_dec x y); split; intros; auto; discriminate. Qed.
Lemma Rleb_false x y : Rleb x y = false <-> (y < x)%R.
Proof. unfold Rleb; destruct (Rle_dec x y); split; intros; auto; try discriminate.
  - exfalso; apply (Rlt_irrefl x); eapply Rle_lt_trans; eauto.
  - apply Rnot_le_lt; auto. Qed.
Lemma Reqb_true x y : Reqb x y = true <-> x = y.
Proof. unfold Reqb; destruct (Req_EM_T x y); split; intros; auto; discriminate. Qed.
Lemma Reqb_false x y : Reqb x y = false <-> x <> y.
Proof. unfold Reqb; destruct (Req_EM_T x y); split; intros; auto; try discriminate; contradiction. Qed.

(* ------------------------------------------------------------------ *)
(* real numbers with an explicit missing value: [None] plays NaN.        *)
(* Arithmetic propagates it, every comparison with it is false.          *)

Definition olift1 (f : R -> R) (a : option R) : option R :=
  match a with Some x => Some (f x) | None => None end.
Definition olift2 (f : R -> R -> R) (a b : option R) : option R :=
  match a, b with Some x, Some y => Some (f x y) | _, _ => None end.
Definition ocmp (f : R -> R -> bool) (a b : option R) : bool :=
  match a, b with Some x, Some y => f x y | _, _ => false end.
Definition obind {A} (a : option R) (f : R -> option A) : option A :=
  match a with Some x => f x | None => None end.

Definition RN : NumOps (option R) := {|
  n0 := Some 0%R; n1 := Some 1%R;
  nadd := olift2 Rplus; nsub := olift2 Rminus; nmul := olift2 Rmult; ndiv := olift2 Rdiv;
  nopp := olift1 Ropp;
  nltb := ocmp Rltb; nleb := ocmp Rleb; neqb := ocmp Reqb;
  nisnan := fun a => match a with None => true | Some _ => false end;
  nsqrt := olift1 R_sqrt.sqrt; nabs := olift1 Rabs;
  nnan := None;
  nofZ := fun z => Some (IZR z);
  ntrunc := fun a => obind a R_trunc; nfloor := fun a => obind a R_floor
|}.

(* ------------------------------------------------------------------ *)
(* comparators used by the correspondence check (binary64 side)         *)

(* same datum: both NaN, or equal (the sign of zero is ignored) *)
Definition f_same (a b : float) : bool :=
  (PrimFloat.is_nan a && PrimFloat.is_nan b) || PrimFloat.eqb a b.

(* |a-b| <= tol * max(1,|b|), NaN pattern equal *)
Definition f_close (tol a b : float) : bool :=
  f_same a b ||
  (negb (PrimFloat.is_nan a) && negb (PrimFloat.is_nan b) &&
   PrimFloat.leb (PrimFloat.abs (PrimFloat.sub a b))
      (PrimFloat.mul tol (if PrimFloat.ltb (PrimFloat.abs b) PrimFloat.one
                          then PrimFloat.one else PrimFloat.abs b))).

Fixpoint list_same {A} (eq : A -> A -> bool) (l1 l2 : list A) : bool :=
  match l1, l2 with
  | [], [] => true
  | a :: l1', b :: l2' => eq a b && list_same eq l1' l2'
  | _, _ => false
  end.

(* indices (as Z) of the cases on which [ok] is false *)
Fixpoint mismatches_from {A} (ok : A -> bool) (i : Z) (l : list A) : list Z :=
  match l with
  | [] => []
  | a :: l' => if ok a then mismatches_from ok (i + 1) l'
               else i :: mismatches_from ok (i + 1) l'
  end.
Definition mismatches {A} (ok : A -> bool) (l : list A) : list Z :=
  mismatches_from ok 0%Z l.
