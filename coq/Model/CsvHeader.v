(* Model of src/hydrodiy/io/csv.py (property C09):
     _csvhead          -> csvhead        (header lines written before the pandas body)
     read_csv, header  -> split_lines / read_header / strip_hash / colnames
     _header2comment   -> parse_line / header2comment
     write_csv, names  -> write_plain / write_compress / write_archive on a small file-system model
     _check_name + read_csv, names -> check_name / read_outcome
   Strings are Coq byte strings; the model is faithful to Python on ASCII text
   (str.strip / str.lower / sorted() are Unicode-aware in Python).
   The pandas CSV body (to_csv / read_csv) is NOT modelled.
   No proofs in this file. *)
From Coq Require Import ZArith NArith Bool List String Ascii DecimalString.
From Hy Require Import Base.Num Gen.ConstsC09.
Import ListNotations.
Open Scope string_scope.

(* ------------------------------------------------------------------ *)
(* characters and elementary string functions                          *)

Definition code (c : ascii) : nat := nat_of_ascii c.
(* str.isspace() on ASCII: \t \n \v \f \r, \x1c..\x1f, space *)
Definition is_space (c : ascii) : bool :=
  ((9 <=? code c) && (code c <=? 13))%nat || ((28 <=? code c) && (code c <=? 32))%nat.
Definition is_upper (c : ascii) : bool := ((65 <=? code c) && (code c <=? 90))%nat.
Definition lower_char (c : ascii) : ascii :=
  if is_upper c then ascii_of_nat (code c + 32) else c.

Definition ch (n : nat) : string := String (ascii_of_nat n) "".   (* case files: non-printable characters *)
Definition NL : ascii := ascii_of_nat 10.
Definition is_empty (s : string) : bool := match s with EmptyString => true | _ => false end.

Fixpoint smap (f : ascii -> ascii) (s : string) : string :=
  match s with EmptyString => EmptyString | String c r => String (f c) (smap f r) end.
Definition lower (s : string) : string := smap lower_char s.          (* str.lower() *)

Fixpoint sfilter (f : ascii -> bool) (s : string) : string :=
  match s with
  | EmptyString => EmptyString
  | String c r => if f c then String c (sfilter f r) else sfilter f r
  end.
Fixpoint sforall (f : ascii -> bool) (s : string) : bool :=
  match s with EmptyString => true | String c r => f c && sforall f r end.
Definition contains (a : ascii) (s : string) : bool := negb (sforall (fun c => negb (Ascii.eqb c a)) s).

(* str.lstrip / rstrip / strip *)
Fixpoint lstrip (s : string) : string :=
  match s with
  | EmptyString => EmptyString
  | String c r => if is_space c then lstrip r else s
  end.
Fixpoint rstrip (s : string) : string :=
  match s with
  | EmptyString => EmptyString
  | String c r => let r' := rstrip r in
                  if is_space c && is_empty r' then EmptyString else String c r'
  end.
Definition py_strip (s : string) : string := rstrip (lstrip s).

(* re.sub(" +", "_", s): every maximal run of spaces becomes one underscore *)
Fixpoint sub_spaces (inrun : bool) (s : string) : string :=
  match s with
  | EmptyString => EmptyString
  | String c r =>
      if Ascii.eqb c " " then (if inrun then sub_spaces true r else String "_" (sub_spaces true r))
      else String c (sub_spaces false r)
  end.

(* re.sub(":.*$", "", s) on a newline-free string: the part before the first colon *)
Fixpoint before_colon (s : string) : string :=
  match s with
  | EmptyString => EmptyString
  | String c r => if Ascii.eqb c ":" then EmptyString else String c (before_colon r)
  end.
(* s[len(before_colon s)+1:] : what follows the first colon, empty without colon *)
Fixpoint after_colon (s : string) : string :=
  match s with
  | EmptyString => EmptyString
  | String c r => if Ascii.eqb c ":" then r else after_colon r
  end.
(* re.search(":", s[:n]) *)
Fixpoint colon_within (n : nat) (s : string) : bool :=
  match n, s with
  | S m, String c r => Ascii.eqb c ":" || colon_within m r
  | _, _ => false
  end.

(* s starts with n dashes:  re.search("^-{n}", s) *)
Fixpoint dash_prefix (n : nat) (s : string) : bool :=
  match n with
  | O => true
  | S m => match s with
           | String c r => Ascii.eqb c "-" && dash_prefix m r
           | EmptyString => false
           end
  end.
(* s contains n consecutive dashes:  re.search("-{n}", s) *)
Fixpoint has_dash_run (n : nat) (s : string) : bool :=
  dash_prefix n s || match s with EmptyString => false | String _ r => has_dash_run n r end.

(* decimal numerals: str(n), "{:02d}".format(n) *)
Definition dec_N (n : N) : string := NilZero.string_of_uint (N.to_uint n).
Definition dec_nat (n : nat) : string := NilZero.string_of_uint (Nat.to_uint n).
Definition fmt02 (n : nat) : string := if (n <? 10)%nat then "0" ++ dec_nat n else dec_nat n.

(* ------------------------------------------------------------------ *)
(* dictionaries (insertion ordered, as Python dicts)                    *)

Definition dict := list (string * string).
Fixpoint lookup {B} (k : string) (d : list (string * B)) : option B :=
  match d with
  | [] => None
  | (k', v) :: r => if String.eqb k k' then Some v else lookup k r
  end.
(* d[k] = v : replaces in place when the key exists, else appends *)
Fixpoint dset {B} (k : string) (v : B) (d : list (string * B)) : list (string * B) :=
  match d with
  | [] => [(k, v)]
  | (k', v') :: r => if String.eqb k k' then (k', v) :: r else (k', v') :: dset k v r
  end.

(* ------------------------------------------------------------------ *)
(* _header2comment                                                      *)

Definition comment_key (i : nat) : string := "comment_" ++ fmt02 i.

(* one pass of the loop body on a header line [elem]; [rule] is the dashed-rule
   test; [i] the running number of colon-less lines.  Result: the assignment
   made to the dictionary (if any) and the new counter. *)
Definition parse_line (rule : string -> bool) (i : nat) (elem : string)
  : option (string * string) * nat :=
  if rule elem then (None, i)
  else
    let key0 := before_colon elem in
    let val0 := py_strip (after_colon elem) in
    let key1 := sub_spaces false (lower (py_strip key0)) in
    if colon_within KEY_LENGTH_MAX elem then
      (if is_empty val0 then None else Some (key1, val0), i)
    else
      (if is_empty elem then None else Some (comment_key i, elem), S i).

Fixpoint h2c_from (rule : string -> bool) (i : nat) (d : dict) (header : list string) : dict :=
  match header with
  | [] => d
  | elem :: rest =>
      match parse_line rule i elem with
      | (Some (k, v), i') => h2c_from rule i' (dset k v d) rest
      | (None, i') => h2c_from rule i' d rest
      end
  end.

(* repaired code: a rule is a line that STARTS with RULE_DASHES dashes;
   pinned code: a line that CONTAINS RULE_DASHES dashes *)
Definition is_rule (s : string) : bool := dash_prefix RULE_DASHES s.
Definition is_rule_pinned (s : string) : bool := has_dash_run RULE_DASHES s.

Definition header2comment (header : list string) : dict := h2c_from is_rule 1 [] header.
Definition header2comment_pinned (header : list string) : dict := h2c_from is_rule_pinned 1 [] header.

(* ------------------------------------------------------------------ *)
(* read_csv: the header block of the text                               *)

(* txt.split("\n") *)
Fixpoint split_lines (s : string) : list string :=
  match s with
  | EmptyString => [EmptyString]
  | String c r =>
      if Ascii.eqb c NL then EmptyString :: split_lines r
      else match split_lines r with
           | h :: t => String c h :: t
           | [] => [String c EmptyString]
           end
  end.
Definition starts_hash (s : string) : bool :=
  match s with String c _ => Ascii.eqb c "#" | EmptyString => false end.
(* re.sub("^# *|\n$", "", line) on a line whose final newline is already removed *)
Fixpoint drop_spaces (s : string) : string :=
  match s with
  | String c r => if Ascii.eqb c " " then drop_spaces r else s
  | EmptyString => EmptyString
  end.
Definition strip_hash (s : string) : string :=
  match s with
  | String c r => if Ascii.eqb c "#" then drop_spaces r else s
  | EmptyString => EmptyString
  end.
(* the readline loop: header lines (stripped), then the first line that does not start with '#' *)
Fixpoint span_header (lines : list string) : list string * string :=
  match lines with
  | [] => ([], EmptyString)
  | l :: rest => if starts_hash l
                 then let (h, c) := span_header rest in (strip_hash l :: h, c)
                 else ([], l)
  end.
Definition read_header (txt : string) : list string * string := span_header (split_lines txt).

(* line.strip().split(",") then re.sub("\\.", "_", .) on every name.
   (valid for a column line without double quotes: the multi-index rewriting
   only applies to quoted parenthesised names) *)
Fixpoint split_on (a : ascii) (s : string) : list string :=
  match s with
  | EmptyString => [EmptyString]
  | String c r =>
      if Ascii.eqb c a then EmptyString :: split_on a r
      else match split_on a r with
           | h :: t => String c h :: t
           | [] => [String c EmptyString]
           end
  end.
Definition dots_to_underscores (s : string) : string :=
  smap (fun c => if Ascii.eqb c "." then "_"%char else c) s.
Definition colnames (line : string) : list string :=
  map dots_to_underscores (split_on "," (py_strip line)).

Definition read_comment (txt : string) : dict := header2comment (fst (read_header txt)).
Definition read_comment_pinned (txt : string) : dict := header2comment_pinned (fst (read_header txt)).
Definition read_colnames (txt : string) : list string := colnames (snd (read_header txt)).

(* ------------------------------------------------------------------ *)
(* _csvhead                                                             *)

Inductive comment_in :=
| CStr (s : string)                    (* a single string  -> {"comment": s} *)
| CList (l : list string)              (* a list / iterable -> comment00, comment01, ... *)
| CDict (d : list (string * string)).  (* a dictionary: keys lose their colons and are lower-cased *)

Definition norm_key (k : string) : string :=
  lower (sfilter (fun c => negb (Ascii.eqb c ":")) k).

Fixpoint clist_from (i : nat) (l : list string) (acc : dict) : dict :=
  match l with
  | [] => acc
  | s :: r => clist_from (S i) r (dset ("comment" ++ fmt02 i) s acc)
  end.

Definition comments_of (c : comment_in) : dict :=
  match c with
  | CStr s => [("comment", s)]
  | CList l => clist_from 0 l []
  | CDict d => fold_left (fun acc kv => dset (norm_key (fst kv)) (snd kv) acc) d []
  end.

(* sorted(comments): by key, code-point order *)
Fixpoint insert_kv (kv : string * string) (l : dict) : dict :=
  match l with
  | [] => [kv]
  | h :: t => if String.leb (fst kv) (fst h) then kv :: l else h :: insert_kv kv t
  end.
Definition sort_kv (l : dict) : dict := fold_right insert_kv [] l.

(* the lines generated from the environment *)
Record sysinfo := {
  s_source : string;      (* str(source_file) *)
  s_workdir : string;     (* os.getcwd() *)
  s_osname : string;      (* os.name *)
  s_python : string;      (* sys.version, newlines replaced *)
  s_pandas : string; s_numpy : string;
  s_distutils : option (string * string)   (* get_python_inc(), get_python_lib() when distutils imports *)
}.
Inductive envinfo :=
| WithSys (s : sysinfo)         (* write_sys_info=True *)
| NoSys (source_name : string). (* write_sys_info=False: source_file.name *)

Definition gen_lines (time author : string) (e : envinfo) : list string :=
  ["# time_generated : " ++ time; "# author : " ++ author] ++
  match e with
  | WithSys s =>
      ["# source_file : " ++ s_source s;
       "# work_dir : " ++ s_workdir s;
       "# python_environment " ++ s_osname s;
       "# python_version : " ++ s_python s;
       "# pandas_version : " ++ s_pandas s;
       "# numpy_version : " ++ s_numpy s] ++
      match s_distutils s with
      | Some (inc, lib) => ["# python_inc : " ++ inc; "# python_lib : " ++ lib]
      | None => []
      end
  | NoSys name => ["# source_file : " ++ name]
  end.

Definition comment_line (kv : string * string) : string := "# " ++ fst kv ++ " : " ++ snd kv.

(* [gen]: the lines that follow the caller's comments (gen_lines ...) *)
Definition csvhead (nrow ncol : N) (c : comment_in) (gen : list string) : list string :=
  HEAD_RULE :: ("# nrow : " ++ dec_N nrow) :: ("# ncol : " ++ dec_N ncol)
    :: map comment_line (sort_kv (comments_of c)) ++ gen ++ [HEAD_RULE].

(* the text written before the pandas body *)
Definition head_text (head : list string) : string :=
  fold_right (fun l acc => l ++ String NL acc) EmptyString head.

(* keys written by gen_lines, nrow, ncol *)
Definition reserved_keys : list string :=
  ["nrow"; "ncol"; "time_generated"; "author"; "source_file"; "work_dir";
   "python_version"; "pandas_version"; "numpy_version"; "python_inc"; "python_lib"].

(* ------------------------------------------------------------------ *)
(* file names: pathlib's stem / suffix on the last path component       *)

(* (before, after) of the LAST dot *)
Fixpoint split_last_dot (s : string) : option (string * string) :=
  match s with
  | EmptyString => None
  | String c r =>
      match split_last_dot r with
      | Some (b, a) => Some (String c b, a)
      | None => if Ascii.eqb c "." then Some (EmptyString, r) else None
      end
  end.
(* i = name.rfind("."); 0 < i < len(name)-1 ? (name[:i], name[i:]) : (name, "") *)
Definition stem_suffix (name : string) : string * string :=
  match split_last_dot name with
  | Some (b, a) => if is_empty b || is_empty a then (name, EmptyString) else (b, "." ++ a)
  | None => (name, EmptyString)
  end.
Definition stem (name : string) : string := fst (stem_suffix name).
Definition suffix (name : string) : string := snd (stem_suffix name).

(* PurePosixPath(name) -> str : empty and "." components dropped, one or two
   leading slashes kept (three or more collapse to one), "." when nothing is left *)
Definition nonempty_comp (s : string) : bool := negb (is_empty s) && negb (String.eqb s ".").
Fixpoint join_with (sep : string) (l : list string) : string :=
  match l with
  | [] => EmptyString
  | [x] => x
  | x :: r => x ++ sep ++ join_with sep r
  end.
Definition posix_root (s : string) : string :=
  match s with
  | String "/" (String "/" (String "/" _)) => "/"
  | String "/" (String "/" _) => "//"
  | String "/" _ => "/"
  | _ => EmptyString
  end.
Definition posix_norm (s : string) : string :=
  let body := join_with "/" (filter nonempty_comp (split_on "/" s)) in
  let r := posix_root s in
  if is_empty r && is_empty body then "." else r ++ body.

(* ------------------------------------------------------------------ *)
(* a directory, as far as read_csv can tell files apart                 *)

Inductive fkind :=
| KText (tag : Z)                        (* text file (header + csv); tag identifies the data *)
| KGz (tag : Z)                          (* gzip-compressed text *)
| KZip (members : list (string * Z)).    (* zip archive: member names with their data *)
Definition fsys := list (string * fkind).

Definition exists_in (fs : fsys) (name : string) : bool :=
  match lookup name fs with Some _ => true | None => false end.

(* --- write_csv --- *)
Inductive wmode := Plain | Compress.

(* name of the file that is created *)
Definition write_container (m : wmode) (name : string) : string :=
  match m with
  | Plain => name
  | Compress => if String.eqb (suffix name) ".zip" then name else stem name ++ ".zip"
  end.
(* name of the zip member: repaired code <stem>.csv ; pinned code: the file's own name *)
Definition write_member (name : string) : string := stem name ++ ".csv".
Definition write_member_pinned (name : string) : string := name.

Definition write_gen (member : string -> string) (m : wmode) (name : string) (tag : Z) (fs : fsys) : fsys :=
  match m with
  | Plain => dset (write_container Plain name) (KText tag) fs
  | Compress => dset (write_container Compress name) (KZip [(member name, tag)]) fs
  end.
Definition write_file := write_gen write_member.
Definition write_file_pinned := write_gen write_member_pinned.

(* archive=...: the member is the normalised path; write2zip refuses an existing member *)
Definition write_archive (path : string) (tag : Z) (arc : list (string * Z)) : option (list (string * Z)) :=
  match lookup (posix_norm path) arc with
  | Some _ => None
  | None => Some (arc ++ [(posix_norm path, tag)])%list
  end.

(* --- read_csv --- *)
Inductive outcome :=
| ROk (tag : Z)        (* the data that was read *)
| RNotFound            (* ValueError of _check_name *)
| RNoMember            (* KeyError: no such member in the archive *)
| RBadFile             (* the file is not of the type its name announces *)
| ROther.              (* never produced by the model: any other error of the implementation *)

(* _check_name: the name itself when it exists, else the first existing <stem>.<ext> *)
Definition check_name (fs : fsys) (name : string) : option string :=
  if exists_in fs name then Some name
  else find (exists_in fs) (map (fun e => stem name ++ "." ++ e) CHECK_EXTENSIONS).

Definition read_file (fs : fsys) (name : string) : outcome :=
  match check_name fs name with
  | None => RNotFound
  | Some full =>
      match lookup full fs with
      | None => RNotFound
      | Some k =>
          if String.eqb (suffix full) ".gz" then
            match k with KGz t => ROk t | _ => RBadFile end
          else if String.eqb (suffix full) ".zip" then
            match k with
            | KZip ms => match lookup (stem name ++ ".csv") ms with
                         | Some t => ROk t | None => RNoMember end
            | _ => RBadFile
            end
          else
            match k with KText t => ROk t | _ => RBadFile end
      end
  end.

Definition read_archive (arc : list (string * Z)) (path : string) : outcome :=
  match lookup (posix_norm path) arc with Some t => ROk t | None => RNoMember end.

(* ------------------------------------------------------------------ *)
(* correspondence glue                                                  *)

Inductive hcase :=
| HHead (nrow ncol : N) (c : comment_in) (time author : string) (e : envinfo) (expect : list string)
| HParse (header : list string) (expect : dict)             (* _header2comment called directly *)
| HRead (txt : string) (ecomment : dict) (ecols : list string)   (* read_csv on a text file *)
| HSuffix (name : string) (estem esuffix : string)          (* pathlib *)
| HNorm (path : string) (expect : string)                   (* str(PurePosixPath(path)) *)
| HFiles (fs : fsys) (m : wmode) (name : string) (tag : Z)
         (efs : fsys) (rname : string) (eout : outcome)     (* write_csv then read_csv(rname) *)
| HArch (arc : list (string * Z)) (path : string) (tag : Z)
        (earc : option (list (string * Z))) (rpath : string) (eout : outcome).

Definition list_eqb {B} (eqb : B -> B -> bool) :=
  fix go (a b : list B) : bool :=
    match a, b with
    | [], [] => true
    | x :: a', y :: b' => eqb x y && go a' b'
    | _, _ => false
    end.
Definition pair_eqb {A B} (ea : A -> A -> bool) (eb : B -> B -> bool) (a b : A * B) : bool :=
  ea (fst a) (fst b) && eb (snd a) (snd b).
Definition dict_eqb : dict -> dict -> bool := list_eqb (pair_eqb String.eqb String.eqb).
Definition members_eqb : list (string * Z) -> list (string * Z) -> bool :=
  list_eqb (pair_eqb String.eqb Z.eqb).
Definition fkind_eqb (a b : fkind) : bool :=
  match a, b with
  | KText x, KText y => Z.eqb x y
  | KGz x, KGz y => Z.eqb x y
  | KZip x, KZip y => members_eqb x y
  | _, _ => false
  end.
(* directory listings are compared as sets of (name, content): sorted by the harness *)
Definition fsys_eqb : fsys -> fsys -> bool := list_eqb (pair_eqb String.eqb fkind_eqb).
Definition sort_fs (fs : fsys) : fsys :=
  fold_right (fun kv =>
    fix ins (l : fsys) : fsys :=
      match l with
      | [] => [kv]
      | h :: t => if String.leb (fst kv) (fst h) then kv :: l else h :: ins t
      end) [] fs.
Definition outcome_eqb (a b : outcome) : bool :=
  match a, b with
  | ROk x, ROk y => Z.eqb x y
  | RNotFound, RNotFound => true
  | RNoMember, RNoMember => true
  | RBadFile, RBadFile => true
  | _, _ => false
  end.
Definition opt_eqb {B} (eqb : B -> B -> bool) (a b : option B) : bool :=
  match a, b with Some x, Some y => eqb x y | None, None => true | _, _ => false end.

Definition h_ok (c : hcase) : bool :=
  match c with
  | HHead nrow ncol cm time author e expect =>
      list_eqb String.eqb (csvhead nrow ncol cm (gen_lines time author e)) expect
  | HParse header expect => dict_eqb (header2comment header) expect
  | HRead txt ecomment ecols =>
      dict_eqb (read_comment txt) ecomment && list_eqb String.eqb (read_colnames txt) ecols
  | HSuffix name es esu => String.eqb (stem name) es && String.eqb (suffix name) esu
  | HNorm p e => String.eqb (posix_norm p) e
  | HFiles fs m name tag efs rname eout =>
      let fs' := write_file m name tag fs in
      fsys_eqb (sort_fs fs') efs && outcome_eqb (read_file fs' rname) eout
  | HArch arc p tag earc rp eout =>
      opt_eqb members_eqb (write_archive p tag arc) earc &&
      match write_archive p tag arc with
      | Some arc' => outcome_eqb (read_archive arc' rp) eout
      | None => outcome_eqb (read_archive arc rp) eout
      end
  end.
