(* Model of src/hydrodiy/gis/c_catchment.c: c_delineate_area,
   c_delineate_flowpathlengths_in_catchment, c_delineate_river (property C06). *)
From Coq Require Import ZArith Bool List Lia.
From Hy Require Import Base.Num Gen.Consts Model.Grid.
Import ListNotations.
Open Scope Z_scope.

Definition zlen {A} (l : list A) : Z := Z.of_nat (List.length l).

(* ---------------- c_delineate_area ---------------- *)
Inductive dres (A : Type) := DErr | DFuel | DOk (a : A).
Arguments DErr {A}. Arguments DFuel {A}. Arguments DOk {A}.

Definition is_inlet (inlets : list Z) (idx : Z) : bool := existsb (Z.eqb idx) inlets.

(* cells stored while one layer (buffer1) is processed, in storage order *)
Definition next_layer (nrows ncols : Z) (fd inlets layer : list Z) : list Z :=
  flat_map (fun b => filter (fun x => negb (is_inlet inlets x)) (upstream_hits nrows ncols fd b)) layer.

(* The while loop, one iteration per layer.  [area] = cells stored so far
   (i = zlen area).  Storing a cell is preceded by the test i == nval-1, so a
   layer of n cells fails iff i + n >= nval; the second test
   (nbuffer2 == nval-1 after the store) can then never fire first. *)
Fixpoint area_loop (fuel : nat) (nrows ncols : Z) (fd inlets : list Z) (outlet nval : Z)
         (first : bool) (layer area : list Z) : dres (list Z) :=
  match fuel with
  | O => DFuel
  | S f =>
      let nxt := next_layer nrows ncols fd inlets layer in
      if nval <=? zlen area + zlen nxt then DErr
      else
        let area1 := area ++ nxt in
        match nxt with
        | [] => DOk area1
        | _ :: _ =>
            if first then
              if zlen area1 =? nval - 1 then DErr
              else area_loop f nrows ncols fd inlets outlet nval false nxt (area1 ++ [outlet])
            else area_loop f nrows ncols fd inlets outlet nval false nxt area1
        end
  end.

Definition delineate_area (nrows ncols : Z) (fd : list Z) (outlet : Z) (inlets : list Z)
           (nval : Z) : dres (list Z) :=
  if nval <? 1 then DErr
  else if negb (valid_cell nrows ncols outlet) then DErr
  else if negb (forallb (valid_cell nrows ncols) inlets) then DErr
  else area_loop (S (Z.to_nat nval)) nrows ncols fd inlets outlet nval true [outlet] [].

(* ---------------- flow path lengths (after the fix: commit) ---------------- *)
(* squared distance between two cells one step apart: 1 orthogonal, 2 diagonal,
   from rows and columns *)
Definition squaredist (ncols a b : Z) : Z :=
  if (getnx ncols a =? getnx ncols b) || (getny ncols a =? getny ncols b) then 1 else 2.

Section Flowpath.
Context {T : Type} (O : NumOps T).

Definition steplen (ncols a b : Z) : T := nsqrt O (nofZ O (squaredist ncols a b)).

(* while(ipath < nval): returns (up, down, length, ipath) at loop exit *)
Fixpoint walk (fuel : nat) (nrows ncols : Z) (fd : list Z) (outlet nval : Z)
         (up down : Z) (len : T) (ipath : Z) : Z * Z * T * Z :=
  match fuel with
  | 0%nat => (up, down, len, ipath)
  | S f =>
      if ipath <? nval then
        match downstream nrows ncols fd up with
        | None => (up, down, len, ipath)              (* ierr_down > 0: break *)
        | Some d =>
            if d <? 0 then (up, d, len, ipath)
            else if d =? outlet then (up, d, len, ipath)
            else walk f nrows ncols fd outlet nval d d
                      (nadd O len (steplen ncols d up)) (ipath + 1)
        end
      else (up, down, len, ipath)
  end.

(* one row of the output: (start cell, end cell, length) *)
Definition flowpath (nrows ncols : Z) (fd : list Z) (outlet nval x : Z) : Z * Z * T :=
  let '(up, down, len, ipath) :=
     walk (Z.to_nat nval) nrows ncols fd outlet nval x (-1) (n0 O) 0 in
  let ipath := ipath + 1 in
  let len := if (ipath <? nval) && (0 <=? down) then nadd O len (steplen ncols down up) else len in
  let len := if (down <? 0) || (x =? outlet) then n0 O else len in
  (x, down, len).

Definition flowpaths (nrows ncols : Z) (fd : list Z) (outlet : Z) (area : list Z) : list (Z * Z * T) :=
  map (flowpath nrows ncols fd outlet (zlen area)) area.

(* ---------------- c_delineate_river ---------------- *)
(* rows: (cell, dist, dx, dy, x, y) *)
Fixpoint river_loop (fuel : nat) (nrows ncols : Z) (xll yll csz : T) (fd : list Z)
         (cur : Z) (dist dx dy : T) : list (Z * T * T * T * T * T) :=
  match fuel with
  | 0%nat => []
  | S f =>
      let dist' := nadd O dist (nsqrt O (nadd O (nmul O dx dx) (nmul O dy dy))) in
      let xy := getcoord O nrows ncols xll yll csz cur in
      let row := (cur, dist', dx, dy, fst xy, snd xy) in
      match downstream nrows ncols fd cur with
      | None => [row]       (* cannot happen for a valid start cell; see river *)
      | Some d =>
          if d <? 0 then [row]
          else
            let dx' := nofZ O (getnx ncols cur - getnx ncols d) in
            let dy' := nofZ O (getny ncols cur - getny ncols d) in
            row :: river_loop f nrows ncols xll yll csz fd d dist' dx' dy'
      end
  end.

Definition river (nrows ncols : Z) (xll yll csz : T) (fd : list Z) (start nval : Z)
  : option (list (Z * T * T * T * T * T)) :=
  if valid_cell nrows ncols start
  then Some (river_loop (Z.to_nat nval) nrows ncols xll yll csz fd start (n0 O) (n0 O) (n0 O))
  else None.

End Flowpath.

(* ---------------- correspondence glue ---------------- *)
From Coq Require Import PrimFloat.

Inductive ccase :=
| CDown (nrows ncols : Z) (fd : list Z) (idx : Z) (expect : option Z)
| CUp (nrows ncols : Z) (fd : list Z) (idx : Z) (expect : option (list Z))
| CArea (nrows ncols : Z) (fd : list Z) (outlet : Z) (inlets : list Z) (nval : Z)
        (expect : option (list Z))
| CPaths (nrows ncols : Z) (fd : list Z) (outlet : Z) (area : list Z)
         (expect : list (Z * Z * float))
| CRiver (nrows ncols : Z) (xll yll csz : float) (fd : list Z) (start nval : Z)
         (expect : option (list (Z * float * float * float * float * float))).

Definition oz_eqb (a b : option Z) : bool :=
  match a, b with Some x, Some y => x =? y | None, None => true | _, _ => false end.
Definition ozl_eqb (a b : option (list Z)) : bool :=
  match a, b with Some x, Some y => zlist_eqb x y | None, None => true | _, _ => false end.

Definition path_eqb (a b : Z * Z * float) : bool :=
  let '(a1, a2, a3) := a in let '(b1, b2, b3) := b in
  (a1 =? b1) && (a2 =? b2) && f_same a3 b3.
Definition river_eqb (a b : Z * float * float * float * float * float) : bool :=
  let '(a1, a2, a3, a4, a5, a6) := a in let '(b1, b2, b3, b4, b5, b6) := b in
  (a1 =? b1) && f_same a2 b2 && f_same a3 b3 && f_same a4 b4 && f_same a5 b5 && f_same a6 b6.

Definition c_ok (c : ccase) : bool :=
  match c with
  | CDown nr nc fd idx e => oz_eqb (downstream nr nc fd idx) e
  | CUp nr nc fd idx e => ozl_eqb (upstream nr nc fd idx) e
  | CArea nr nc fd outlet inlets nval e =>
      match delineate_area nr nc fd outlet inlets nval, e with
      | DOk a, Some a' => zlist_eqb a a'
      | DErr, None => true
      | _, _ => false
      end
  | CPaths nr nc fd outlet area e =>
      list_same path_eqb (flowpaths F64 nr nc fd outlet area) e
  | CRiver nr nc xll yll csz fd start nval e =>
      match river F64 nr nc xll yll csz fd start nval, e with
      | Some r, Some r' => list_same river_eqb r r'
      | None, None => true
      | _, _ => false
      end
  end.
