(* Model of src/hydrodiy/io/hyruns.py: get_batch, SiteBatch.search,
   OptionManager.from_cartesian_product / find / to_dict / from_dict / __eq__. *)
From Coq Require Import ZArith Bool List String Lia.
Import ListNotations.
Open Scope Z_scope.

(* ---------------- batches ---------------- *)
(* numpy.array_split(arange n, k)[i]: the first n mod k sections have n/k+1
   elements, the others n/k (assumption on numpy validated by correspondence) *)
Definition batch_size (n k i : Z) : Z := n / k + (if i <? n mod k then 1 else 0).
Definition batch_start (n k i : Z) : Z := i * (n / k) + Z.min i (n mod k).

Fixpoint zseq (start : Z) (len : nat) : list Z :=
  match len with O => [] | S l => start :: zseq (start + 1) l end.

(* the three rejections of get_batch, in the order of the code *)
Definition get_batch (n k i : Z) : option (list Z) :=
  if n <? 1 then None
  else if n <? k then None
  else if (i <? 0) || (k <=? i) then None
  else Some (zseq (batch_start n k i) (Z.to_nat (batch_size n k i))).

(* SiteBatch.search: first batch whose site list contains the site *)
Section Search.
Context {A : Type} (eqb : A -> A -> bool).
Definition sites_of (sites : list A) (d : A) (idx : list Z) : list A :=
  map (fun j => nth (Z.to_nat j) sites d) idx.
Fixpoint search_from (sites : list A) (d : A) (k : Z) (fuel : nat) (i : Z) (s : A) : option Z :=
  match fuel with
  | O => None
  | S f =>
      match get_batch (Z.of_nat (List.length sites)) k i with
      | Some idx => if existsb (eqb s) (sites_of sites d idx) then Some i
                    else search_from sites d k f (i + 1) s
      | None => None  (* get_batch raises: propagated as an error *)
      end
  end.
Definition search (sites : list A) (d : A) (k : Z) (s : A) : option Z :=
  search_from sites d k (Z.to_nat k) 0 s.
End Search.

(* ---------------- option manager ---------------- *)
Inductive val := VInt (z : Z) | VStr (s : string).
Definition val_eqb (a b : val) : bool :=
  match a, b with
  | VInt x, VInt y => x =? y
  | VStr x, VStr y => String.eqb x y
  | _, _ => false
  end.

(* itertools.product over the lists: the first list varies slowest *)
Fixpoint product {A} (opts : list (list A)) : list (list A) :=
  match opts with
  | [] => [[]]
  | vs :: rest => flat_map (fun v => map (cons v) (product rest)) vs
  end.

Definition task := list (string * val).          (* a dict in insertion order *)
Definition ctxt := list (string * val).
Definition optdict := list (string * list val).

(* from_cartesian_product: a bare str/int becomes a one-element list *)
Inductive optspec := OBare (v : val) | OIter (vs : list val).
Definition normalize (o : optspec) : list val :=
  match o with OBare v => [v] | OIter vs => vs end.
Definition from_cartesian (spec : list (string * optspec)) : optdict :=
  map (fun kv => (fst kv, normalize (snd kv))) spec.

Definition make_tasks (options : optdict) : list task :=
  map (fun t => combine (map fst options) t) (product (map snd options)).

Fixpoint lookup {B} (k : string) (d : list (string * B)) : option B :=
  match d with
  | [] => None
  | (k', v) :: r => if String.eqb k k' then Some v else lookup k r
  end.

(* dict literal / assignment: replace in place when the key exists, else append *)
Fixpoint dset {B} (k : string) (v : B) (d : list (string * B)) : list (string * B) :=
  match d with
  | [] => [(k, v)]
  | (k', v') :: r => if String.eqb k k' then (k', v) :: r else (k', v') :: dset k v r
  end.

(* find(key=v): anchored match of the string forms; for the values of the
   property's quantifier (integers, identifier-like strings) two string forms
   are equal iff the values are - modelled as value equality *)
Fixpoint find_from (key : string) (v : val) (i : Z) (tasks : list task) : list Z :=
  match tasks with
  | [] => []
  | t :: r =>
      match lookup key t with
      | Some x => if val_eqb x v then i :: find_from key v (i + 1) r
                  else find_from key v (i + 1) r
      | None => find_from key v (i + 1) r
      end
  end.
Definition find (key : string) (v : val) (tasks : list task) : list Z :=
  find_from key v 0 tasks.

Record manager := { m_name : string; m_context : ctxt; m_options : optdict;
                    m_tasks : list task }.

(* dictionaries produced by to_dict, typed field by field *)
Inductive tfield := TId (z : Z) | TCtx (c : ctxt) | TOpts (o : task).
Inductive mfield := MName (s : string) | MCtx (c : ctxt) | MOpts (o : optdict)
                  | MTasks (l : list (list (string * tfield))).

Record keynames := { k_context : string; k_taskopt : string; k_manopt : string }.

Definition task_to_dict (kn : keynames) (id : Z) (c : ctxt) (o : task) :=
  dset (k_taskopt kn) (TOpts o) (dset (k_context kn) (TCtx c) (dset "taskid"%string (TId id) [])).

Fixpoint tasks_to_dicts (kn : keynames) (c : ctxt) (i : Z) (ts : list task) :=
  match ts with
  | [] => []
  | t :: r => task_to_dict kn i c t :: tasks_to_dicts kn c (i + 1) r
  end.

Definition to_dict (kn : keynames) (m : manager) : list (string * mfield) :=
  dset "tasks"%string (MTasks (tasks_to_dicts kn (m_context m) 0 (m_tasks m)))
   (dset (k_manopt kn) (MOpts (m_options m))
     (dset (k_context kn) (MCtx (m_context m))
       (dset "name"%string (MName (m_name m)) []))).

(* OptionTask.from_dict(t).options : KeyError modelled as None *)
Definition task_options_of (kn : keynames) (d : list (string * tfield)) : option task :=
  match lookup "taskid"%string d, lookup (k_context kn) d, lookup (k_taskopt kn) d with
  | Some _, Some _, Some (TOpts o) => Some o
  | _, _, _ => None
  end.

Fixpoint all_some {B} (l : list (option B)) : option (list B) :=
  match l with
  | [] => Some []
  | Some x :: r => match all_some r with Some r' => Some (x :: r') | None => None end
  | None :: _ => None
  end.

Definition from_dict (kn : keynames) (d : list (string * mfield)) : option manager :=
  let name := match lookup "name"%string d with Some (MName s) => s | _ => "Task Manager"%string end in
  let c := match lookup (k_context kn) d with Some (MCtx c) => c | _ => [] end in
  let o := match lookup (k_manopt kn) d with Some (MOpts o) => o | _ => [] end in
  let ts := match lookup "tasks"%string d with Some (MTasks l) => l | _ => [] end in
  match all_some (map (task_options_of kn) ts) with
  | Some tasks => Some {| m_name := name; m_context := c; m_options := o; m_tasks := tasks |}
  | None => None
  end.

(* OptionManager.__eq__ (one-directional inclusion tests + task list) *)
Definition list_eqb {B} (eqb : B -> B -> bool) :=
  fix go (a b : list B) : bool :=
    match a, b with
    | [], [] => true
    | x :: a', y :: b' => eqb x y && go a' b'
    | _, _ => false
    end.
Definition pair_eqb {B} (eqb : B -> B -> bool) (a b : string * B) : bool :=
  String.eqb (fst a) (fst b) && eqb (snd a) (snd b).
Definition included {B} (eqb : B -> B -> bool) (a b : list (string * B)) : bool :=
  forallb (fun kv => match lookup (fst kv) b with
                     | Some v => eqb v (snd kv) | None => false end) a.
Definition manager_eq (a b : manager) : bool :=
  included val_eqb (m_context a) (m_context b) &&
  included (list_eqb val_eqb) (m_options a) (m_options b) &&
  (Z.of_nat (List.length (m_tasks a)) =? Z.of_nat (List.length (m_tasks b))) &&
  list_eqb (list_eqb (pair_eqb val_eqb)) (m_tasks a) (m_tasks b).

(* ---------------- correspondence glue ---------------- *)
Inductive hcase :=
| HBatch (n k i : Z) (expect : option (list Z))
| HBatchSum (n k i : Z) (start len : Z)
| HSearch (sites : list Z) (k : Z) (s : Z) (expect : option Z)
| HProduct (spec : list (string * optspec)) (eopt : optdict) (expect : list task)
| HFind (options : optdict) (key : string) (v : val) (expect : list Z)
| HDict (kn : keynames) (m : manager) (expect : list (string * mfield))
| HRound (kn : keynames) (m : manager) (eq_ab eq_ba : bool).

Definition opt_eqb {B} (eqb : B -> B -> bool) (a b : option B) : bool :=
  match a, b with Some x, Some y => eqb x y | None, None => true | _, _ => false end.

Definition tfield_eqb (a b : tfield) : bool :=
  match a, b with
  | TId x, TId y => x =? y
  | TCtx x, TCtx y => list_eqb (pair_eqb val_eqb) x y
  | TOpts x, TOpts y => list_eqb (pair_eqb val_eqb) x y
  | _, _ => false
  end.
Definition mfield_eqb (a b : mfield) : bool :=
  match a, b with
  | MName x, MName y => String.eqb x y
  | MCtx x, MCtx y => list_eqb (pair_eqb val_eqb) x y
  | MOpts x, MOpts y => list_eqb (pair_eqb (list_eqb val_eqb)) x y
  | MTasks x, MTasks y => list_eqb (list_eqb (pair_eqb tfield_eqb)) x y
  | _, _ => false
  end.

Definition h_ok (c : hcase) : bool :=
  match c with
  | HBatch n k i e => opt_eqb (list_eqb Z.eqb) (get_batch n k i) e
  | HBatchSum n k i st ln =>
      match get_batch n k i with
      | Some _ => (batch_start n k i =? st) && (batch_size n k i =? ln)
      | None => false end
  | HSearch sites k s e => opt_eqb Z.eqb (search Z.eqb sites (-1) k s) e
  | HProduct sp eo e =>
      list_eqb (pair_eqb (list_eqb val_eqb)) (from_cartesian sp) eo &&
      list_eqb (list_eqb (pair_eqb val_eqb)) (make_tasks (from_cartesian sp)) e
  | HFind o key v e => list_eqb Z.eqb (find key v (make_tasks o)) e
  | HDict kn m e => list_eqb (pair_eqb mfield_eqb) (to_dict kn m) e
  | HRound kn m ab ba =>
      match from_dict kn (to_dict kn m) with
      | Some m' => Bool.eqb (manager_eq m m') ab && Bool.eqb (manager_eq m' m) ba
      | None => false
      end
  end.
