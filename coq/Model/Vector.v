(* Model of src/hydrodiy/data/containers.py : class Vector (bounded, named
   parameter vector), statement by statement:

     __init__            -> [vnew]
     __checkvalues__     -> [checkvalues]   (length, NaN, hit test WITH EPS, np.clip)
     __setattr__         -> [set_attr]      (NaN, hit test WITHOUT EPS, min(max()))
     __setitem__         -> [set_key]
     values.setter       -> [set_all]
     reset               -> [reset]
     clone               -> [clone]         (repaired code)  / [clone_old] (pinned code)
     to_dict, from_dict  -> [to_dict], [from_dict] (repaired) / [from_dict_old] (pinned)

   The model is generic over a small record of number operations [VOps T]
   (exactly the operations the Python text applies to the numbers: isnan, <,
   +, -, the constants 0, +inf, -inf, EPS), instantiated twice:
     [VF64] : IEEE-754 binary64 (runs, compared with the implementation),
     [VXR]  : the extended reals with an explicit NaN (theorems).
   EPS is re-extracted from containers.py (Gen/Consts.v); the keyword defaults
   of the constructor from its signature (Gen/ConstsC12.v).
   No proofs in this file. *)
From Coq Require Import ZArith Bool List String Reals.
From Coq Require Import PrimFloat.
From Hy Require Import Base.Num Gen.Consts Gen.ConstsC12.
Import ListNotations.

(* ------------------------------------------------------------------ *)
(* numbers                                                              *)

Record VOps (T : Type) := mkVOps {
  vo_isnan : T -> bool;
  vo_ltb : T -> T -> bool;
  vo_add : T -> T -> T;
  vo_sub : T -> T -> T;
  vo_zero : T;
  vo_pinf : T;
  vo_ninf : T;
  vo_eps : T              (* containers.EPS *)
}.
Arguments vo_isnan {T}. Arguments vo_ltb {T}. Arguments vo_add {T}. Arguments vo_sub {T}.
Arguments vo_zero {T}. Arguments vo_pinf {T}. Arguments vo_ninf {T}. Arguments vo_eps {T}.

(* binary64: the operations of Base/Num.v's [F64] *)
Definition VF64 : VOps float := {|
  vo_isnan := nisnan F64; vo_ltb := nltb F64; vo_add := nadd F64; vo_sub := nsub F64;
  vo_zero := n0 F64; vo_pinf := infinity; vo_ninf := neg_infinity;
  vo_eps := EPS_containers_F |}.

(* extended reals with NaN *)
Inductive xr := XNan | XNinf | XFin (r : R) | XPinf.

Definition xisnan (a : xr) : bool := match a with XNan => true | _ => false end.

Definition xltb (a b : xr) : bool :=
  match a, b with
  | XNan, _ | _, XNan => false
  | XNinf, XNinf => false
  | XNinf, _ => true
  | _, XNinf => false
  | XPinf, _ => false
  | XFin _, XPinf => true
  | XFin x, XFin y => Rltb x y
  end.

Definition xopp (a : xr) : xr :=
  match a with XNan => XNan | XNinf => XPinf | XPinf => XNinf | XFin x => XFin (- x) end.

(* IEEE addition on the extended reals: inf + (-inf) = NaN *)
Definition xadd (a b : xr) : xr :=
  match a, b with
  | XNan, _ | _, XNan => XNan
  | XFin x, XFin y => XFin (x + y)
  | XPinf, XNinf | XNinf, XPinf => XNan
  | XPinf, _ | _, XPinf => XPinf
  | XNinf, _ | _, XNinf => XNinf
  end.
Definition xsub (a b : xr) : xr := xadd a (xopp b).

Definition VXR : VOps xr := {|
  vo_isnan := xisnan; vo_ltb := xltb; vo_add := xadd; vo_sub := xsub;
  vo_zero := XFin 0; vo_pinf := XPinf; vo_ninf := XNinf;
  vo_eps := XFin EPS_containers_R |}.

(* ------------------------------------------------------------------ *)
(* list helpers                                                         *)

Definition map3 {A B C D} (f : A -> B -> C -> D) (a : list A) (b : list B) (c : list C) : list D :=
  map (fun t => f (fst t) (fst (snd t)) (snd (snd t))) (combine a (combine b c)).

Definition existsb3 {A B C} (p : A -> B -> C -> bool) (a : list A) (b : list B) (c : list C) : bool :=
  existsb (fun t => p (fst t) (fst (snd t)) (snd (snd t))) (combine a (combine b c)).

Fixpoint upd {A} (i : nat) (x : A) (l : list A) : list A :=
  match l, i with
  | [], _ => []
  | _ :: l', O => x :: l'
  | a :: l', S i' => a :: upd i' x l'
  end.

(* position of a name (the dictionary _names_index) *)
Fixpoint index_of (name : string) (names : list string) : option nat :=
  match names with
  | [] => None
  | n :: rest => if String.eqb name n then Some O
                 else match index_of name rest with Some i => Some (S i) | None => None end
  end.

Fixpoint nodupb (names : list string) : bool :=
  match names with
  | [] => true
  | n :: rest => negb (existsb (String.eqb n) rest) && nodupb rest
  end.

(* ------------------------------------------------------------------ *)
(* the class                                                            *)

Inductive outcome := Accepted | Rejected.     (* Rejected = ValueError raised *)

Section Vector.
Context {T : Type} (V : VOps T).

Record vstate := mkV {
  v_names : list string;
  v_mins : list T; v_maxs : list T; v_defaults : list T; v_values : list T;
  v_hit : bool;                 (* _hitbounds *)
  v_cb : bool; v_chb : bool; v_an : bool   (* _check_bounds, _check_hitbounds, _accept_nan *)
}.

Definition v_nval (s : vstate) : nat := List.length (v_names s).

(* one element of np.clip(val, mins, maxs):
   _NPY_MIN(_NPY_MAX(x, lo), hi) with _NPY_MAX(a,b) = isnan(a) ? a : (a > b ? a : b),
                                      _NPY_MIN(a,b) = isnan(a) ? a : (a < b ? a : b) *)
Definition clip_np (x lo hi : T) : T :=
  let m := if vo_isnan V x then x else if vo_ltb V lo x then x else lo in
  if vo_isnan V m then m else if vo_ltb V m hi then m else hi.

(* Python's min(max(value, lo), hi): max(a, b) = b if b > a else a; min(a, b) = b if b < a else a *)
Definition clip_py (x lo hi : T) : T :=
  let m := if vo_ltb V x lo then lo else x in
  if vo_ltb V hi m then hi else m.

(* the two hit tests *)
Definition hit_eps (x lo hi : T) : bool :=          (* __checkvalues__ : beyond bound -/+ EPS *)
  vo_ltb V x (vo_sub V lo (vo_eps V)) || vo_ltb V (vo_add V hi (vo_eps V)) x.
Definition hit_exact (x lo hi : T) : bool :=        (* __setattr__ : beyond the bound itself *)
  vo_ltb V x lo || vo_ltb V hi x.

(* __checkvalues__(val, check_hitbounds) against the bounds (mins, maxs) of a
   vector with nval names; None = ValueError *)
Definition checkvalues (mins maxs : list T) (an : bool) (nval : nat)
           (val : list T) (ck : bool) : option (list T * bool) :=
  if negb (Nat.eqb (List.length val) nval) then None
  else if existsb (vo_isnan V) val && negb an then None
  else
    let hit := if ck then existsb3 hit_eps val mins maxs else false in
    Some (map3 clip_np val mins maxs, hit).

(* __init__(names, defaults, mins, maxs, check_bounds, check_hitbounds, accept_nan) *)
Definition vnew (names : list string) (defaults mins maxs : option (list T))
           (cb chb an : bool) : option vstate :=
  let n := List.length names in
  if chb && negb cb then None
  else if negb (nodupb names) then None
  else
    let mins0 := repeat (vo_ninf V) n in
    let maxs0 := repeat (vo_pinf V) n in
    let omins := match mins with
                 | None => Some mins0
                 | Some m => match checkvalues mins0 maxs0 an n m false with
                             | Some (m', _) => Some m' | None => None end
                 end in
    match omins with
    | None => None
    | Some mins1 =>
      let omaxs := match maxs with
                   | None => Some maxs0
                   | Some m => match checkvalues mins1 maxs0 an n m true with
                               | Some (m', hit) => if hit then None else Some m'
                               | None => None end
                   end in
      match omaxs with
      | None => None
      | Some maxs1 =>
        let odefs := match defaults with
                     | None => Some (map3 clip_np (repeat (vo_zero V) n) mins1 maxs1)
                     | Some d => match checkvalues mins1 maxs1 an n d true with
                                 | Some (d', hit) => if hit then None else Some d'
                                 | None => None end
                     end in
        match odefs with
        | None => None
        | Some defs1 => Some (mkV names mins1 maxs1 defs1 defs1 false cb chb an)
        end
      end
    end.

(* Vector(names): the keyword defaults of the signature (extracted) *)
Definition vnew_default (names : list string) : option vstate :=
  vnew names None None None VEC_DEFAULT_CHECK_BOUNDS VEC_DEFAULT_CHECK_HITBOUNDS VEC_DEFAULT_ACCEPT_NAN.

Definition with_values (s : vstate) (vals : list T) (hit : bool) : vstate :=
  mkV (v_names s) (v_mins s) (v_maxs s) (v_defaults s) vals hit (v_cb s) (v_chb s) (v_an s).
Definition with_hit (s : vstate) (hit : bool) : vstate := with_values s (v_values s) hit.

(* v.<name> = x  (__setattr__).  A name that is not one of the vector's names
   creates an ordinary Python attribute: the vector state is not concerned. *)
Definition set_attr (s : vstate) (name : string) (x : T) : vstate * outcome :=
  match index_of name (v_names s) with
  | None => (s, Accepted)
  | Some idx =>
      if vo_isnan V x && negb (v_an s) then (s, Rejected)
      else
        let lo := nth idx (v_mins s) (vo_zero V) in
        let hi := nth idx (v_maxs s) (vo_zero V) in
        let hit := if v_chb s then hit_exact x lo hi else v_hit s in
        (with_values s (upd idx (clip_py x lo hi) (v_values s)) hit, Accepted)
  end.

(* v[key] = x  (__setitem__) *)
Definition set_key (s : vstate) (key : string) (x : T) : vstate * outcome :=
  match index_of key (v_names s) with
  | None => (s, Rejected)
  | Some _ => set_attr s key x
  end.

(* v.values = val *)
Definition set_all (s : vstate) (val : list T) : vstate * outcome :=
  match checkvalues (v_mins s) (v_maxs s) (v_an s) (v_nval s) val (v_chb s) with
  | None => (s, Rejected)
  | Some (vals, hit) => (with_values s vals hit, Accepted)
  end.

Definition reset (s : vstate) : vstate * outcome := set_all s (v_defaults s).

(* clone(), repaired code: flags by keyword, values, then the hit flag *)
Definition clone (s : vstate) : option vstate :=
  match vnew (v_names s) (Some (v_defaults s)) (Some (v_mins s)) (Some (v_maxs s))
             (v_cb s) (v_chb s) (v_an s) with
  | None => None
  | Some c => match set_all c (v_values s) with
              | (c', Accepted) => Some (with_hit c' (v_hit s))
              | (_, Rejected) => None
              end
  end.

(* clone(), pinned code: Vector(names, defaults, mins, maxs, self.check_hitbounds)
   - the fifth positional parameter is check_bounds; check_hitbounds and
   accept_nan take their defaults; the hit flag is whatever the setter computes *)
Definition clone_old (s : vstate) : option vstate :=
  match vnew (v_names s) (Some (v_defaults s)) (Some (v_mins s)) (Some (v_maxs s))
             (v_chb s) VEC_DEFAULT_CHECK_HITBOUNDS VEC_DEFAULT_ACCEPT_NAN with
  | None => None
  | Some c => match set_all c (v_values s) with
              | (c', Accepted) => Some c'
              | (_, Rejected) => None
              end
  end.

(* to_dict / from_dict *)
Record vrow := mkRow { r_name : string; r_value : T; r_min : T; r_max : T; r_default : T }.
Record vdict := mkD {
  d_nval : nat; d_hit : bool; d_cb : bool; d_chb : bool; d_an : bool; d_data : list vrow }.

Fixpoint rows (names : list string) (vals mins maxs defs : list T) : list vrow :=
  match names, vals, mins, maxs, defs with
  | n :: names', v :: vals', lo :: mins', hi :: maxs', d :: defs' =>
      mkRow n v lo hi d :: rows names' vals' mins' maxs' defs'
  | _, _, _, _, _ => []
  end.

Definition to_dict (s : vstate) : vdict :=
  mkD (v_nval s) (v_hit s) (v_cb s) (v_chb s) (v_an s)
      (rows (v_names s) (v_values s) (v_mins s) (v_maxs s) (v_defaults s)).

(* repaired code: construct, assign the values, then restore the flag.
   None = exception (IndexError when data is shorter than nval, else ValueError) *)
Definition from_dict (d : vdict) : option vstate :=
  if Nat.ltb (List.length (d_data d)) (d_nval d) then None
  else
    let rs := firstn (d_nval d) (d_data d) in
    match vnew (map r_name rs) (Some (map r_default rs)) (Some (map r_min rs)) (Some (map r_max rs))
               (d_cb d) (d_chb d) (d_an d) with
    | None => None
    | Some v => match set_all v (map r_value rs) with
                | (v', Accepted) => Some (with_hit v' (d_hit d))
                | (_, Rejected) => None
                end
    end.

(* pinned code: the flag is restored BEFORE the values are assigned, and the
   values setter overwrites it *)
Definition from_dict_old (d : vdict) : option vstate :=
  if Nat.ltb (List.length (d_data d)) (d_nval d) then None
  else
    let rs := firstn (d_nval d) (d_data d) in
    match vnew (map r_name rs) (Some (map r_default rs)) (Some (map r_min rs)) (Some (map r_max rs))
               (d_cb d) (d_chb d) (d_an d) with
    | None => None
    | Some v => match set_all (with_hit v (d_hit d)) (map r_value rs) with
                | (v', Accepted) => Some v'
                | (_, Rejected) => None
                end
    end.

(* ------------------------------------------------------------------ *)
(* histories                                                            *)

Inductive vop :=
| OSetAttr (name : string) (x : T)    (* v.name = x *)
| OSetKey (key : string) (x : T)      (* v[key] = x *)
| OSetAll (val : list T)              (* v.values = val *)
| OReset                              (* v.reset() *)
| OClone                              (* v = v.clone() *)
| ODict.                              (* v = Vector.from_dict(v.to_dict()) *)

(* [cl], [rt]: the clone and round-trip functions in force (repaired or pinned) *)
Definition step_gen (cl : vstate -> option vstate) (rt : vstate -> option vstate)
           (s : vstate) (op : vop) : vstate * outcome :=
  match op with
  | OSetAttr name x => set_attr s name x
  | OSetKey key x => set_key s key x
  | OSetAll val => set_all s val
  | OReset => reset s
  | OClone => match cl s with Some c => (c, Accepted) | None => (s, Rejected) end
  | ODict => match rt s with Some c => (c, Accepted) | None => (s, Rejected) end
  end.

Definition step : vstate -> vop -> vstate * outcome :=
  step_gen clone (fun s => from_dict (to_dict s)).
Definition step_old : vstate -> vop -> vstate * outcome :=
  step_gen clone_old (fun s => from_dict_old (to_dict s)).

Definition run (s : vstate) (ops : list vop) : vstate :=
  fold_left (fun st op => fst (step st op)) ops s.

(* the trace: outcome and state after every operation *)
Fixpoint trace (s : vstate) (ops : list vop) : list (outcome * vstate) :=
  match ops with
  | [] => []
  | op :: rest => let r := step s op in (snd r, fst r) :: trace (fst r) rest
  end.

End Vector.

Arguments mkV {T}. Arguments v_names {T}. Arguments v_mins {T}. Arguments v_maxs {T}.
Arguments v_defaults {T}. Arguments v_values {T}. Arguments v_hit {T}. Arguments v_cb {T}.
Arguments v_chb {T}. Arguments v_an {T}. Arguments v_nval {T}.
Arguments OSetAttr {T}. Arguments OSetKey {T}. Arguments OSetAll {T}. Arguments OReset {T}.
Arguments OClone {T}. Arguments ODict {T}.
Arguments with_values {T}. Arguments with_hit {T}.
Arguments mkRow {T}. Arguments mkD {T}.

(* ------------------------------------------------------------------ *)
(* correspondence glue (binary64 instance)                              *)

Definition fl_same (a b : list float) : bool := list_same f_same a b.
Definition sl_same (a b : list string) : bool := list_same String.eqb a b.

(* the observable state of an implementation vector, as read by the harness:
   names, mins, maxs, defaults, values, hitbounds, check_bounds, check_hitbounds, accept_nan *)
Definition obs_same (s o : vstate (T := float)) : bool :=
  sl_same (v_names s) (v_names o) &&
  fl_same (v_mins s) (v_mins o) && fl_same (v_maxs s) (v_maxs o) &&
  fl_same (v_defaults s) (v_defaults o) && fl_same (v_values s) (v_values o) &&
  Bool.eqb (v_hit s) (v_hit o) && Bool.eqb (v_cb s) (v_cb o) &&
  Bool.eqb (v_chb s) (v_chb o) && Bool.eqb (v_an s) (v_an o).

(* outcome codes written by the harness: 0 = no exception, 1 = ValueError,
   anything else = another exception class (never produced by the model) *)
Definition outcome_code (o : outcome) : Z := match o with Accepted => 0%Z | Rejected => 1%Z end.

Fixpoint trace_same (s : vstate (T := float)) (ops : list (vop (T := float)))
         (expect : list (Z * vstate (T := float))) : bool :=
  match ops, expect with
  | [], [] => true
  | op :: ops', (code, o) :: expect' =>
      let r := step VF64 s op in
      (outcome_code (snd r) =? code)%Z && obs_same (fst r) o && trace_same (fst r) ops' expect'
  | _, _ => false
  end.

Inductive vcase :=
(* Vector(names, defaults, mins, maxs, cb, chb, an) then the operations; the
   implementation's state after the constructor (None = ValueError) and after
   every operation *)
| VHist (names : list string) (defaults mins maxs : option (list float)) (cb chb an : bool)
        (expect0 : option (vstate (T := float)))
        (ops : list (vop (T := float))) (expect : list (Z * vstate (T := float)))
(* a transform's parameter / constant vector: the table extracted from
   transform.py (index into TRANSFORM_TABLES_F) against the live object *)
| VTable (index : nat) (observed : vstate (T := float)).

Definition table_state (t : vtable float) : option (vstate (T := float)) :=
  vnew VF64 (vt_names t) (vt_defaults t) (vt_mins t) (vt_maxs t)
       (vt_cb t) (vt_chb t) (vt_accept_nan t).

Definition v_ok (c : vcase) : bool :=
  match c with
  | VHist names defaults mins maxs cb chb an expect0 ops expect =>
      match vnew VF64 names defaults mins maxs cb chb an, expect0 with
      | None, None => match ops with [] => true | _ => false end
      | Some s, Some o => obs_same s o && trace_same s ops expect
      | _, _ => false
      end
  | VTable i o =>
      match nth_error TRANSFORM_TABLES_F i with
      | Some t => match table_state t with Some s => obs_same s o | None => false end
      | None => false
      end
  end.
