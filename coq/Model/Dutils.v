(* Model of src/hydrodiy/data/c_dutils.c (c_aggregate, c_flathomogen), of the
   Python wrappers dutils.aggregate / dutils.flathomogen, of
   src/hydrodiy/data/c_dateutils.c (leap years, days in month, add one month /
   one day) and of dutils.monthly2daily (flat and cubic).

   Numeric code is generic over [NumOps]; the order of the floating-point
   operations is that of the C / numpy text.  Tables and constants come from
   Gen/ConstsC08.v (re-extracted from the working tree on every run).

   No proofs in this file.  Property C08. *)
From Coq Require Import ZArith Bool List.
From Hy Require Import Base.Num Gen.ConstsC08.
Import ListNotations.
Open Scope Z_scope.

(* outcome of a kernel run *)
Inductive kres (S : Type) :=
| KUndef            (* nval = 0: the kernel reads aggindex[0] (outside C08; see C05) *)
| KErrOrder         (* DUTILS_ERROR + __LINE__ : index decreases *)
| KErrCount         (* DUTILS_ERROR + __LINE__ : count >= nval *)
| KDone (s : S).
Arguments KUndef {S}. Arguments KErrOrder {S}. Arguments KErrCount {S}. Arguments KDone {S}.

(* np.array(aggindex).astype(np.int32) : two's-complement wrap *)
Definition to_int32 (z : Z) : Z := (z + 2147483648) mod 4294967296 - 2147483648.
Definition in_int32 (z : Z) : Prop := -2147483648 <= z <= 2147483647.

Section Dutils.
Context {T : Type} (N : NumOps T).

(* outcome of the Python functions *)
Inductive dres :=
| DErrLen      (* ValueError: lengths differ (raised by the wrapper) *)
| DErrEmpty    (* nval = 0, see KUndef *)
| DErrOrder    (* ValueError: kernel error code, decreasing index *)
| DErrCount    (* ValueError: kernel error code, count >= nval *)
| DErrArg      (* ValueError: unknown interpolation (monthly2daily) *)
| DOk (out : list T).

(* ------------------------------------------------------------------ *)
(* c_aggregate                                                          *)

(* the update of the running reduction by one input; [inp] is the input with
   NaN already replaced by 0, [valid] tells whether it was a number, [nagg] is
   the number of valid inputs of the group INCLUDING this one.
   operator <= 1 : sum (mean divides at the flush); 2 : max; 3 : tail;
   any other value leaves the accumulator at 0. *)
Definition agg_upd (op : Z) (agg : T) (nagg : Z) (valid : bool) (inp : T) : T :=
  if op <=? 1 then nadd N agg inp
  else if op =? 2 then
    (if valid then (if (nagg =? 1) || nltb N agg inp then inp else agg) else agg)
  else if op =? 3 then (if valid then inp else agg)
  else agg.

(* the code as pinned (before the two `fix:` commits): the maximum starts at 0
   and a missing value enters max / tail as 0 *)
Definition agg_upd_pinned (op : Z) (agg : T) (nagg : Z) (valid : bool) (inp : T) : T :=
  if op <=? 1 then nadd N agg inp
  else if op =? 2 then (if nltb N agg inp then inp else agg)
  else if op =? 3 then inp
  else agg.

Record aggst := mkAgg {
  ag_prev : Z;       (* iaprev *)
  ag_agg : T;        (* agg *)
  ag_n : Z;          (* nagg *)
  ag_nan : Z;        (* nagg_nan *)
  ag_count : Z;      (* count *)
  ag_out : list T    (* outputs[0..count-1] *)
}.

(* "Mean instead of agg" + "Store outputs": the value stored for a group *)
Definition agg_close (op maxnan : Z) (s : aggst) : T :=
  let a := if (op =? 1) && (0 <? ag_n s)
           then ndiv N (ag_agg s) (nofZ N (ag_n s)) else ag_agg s in
  if maxnan <? ag_nan s then nnan N else a.

Section Loop.
Variable upd : Z -> T -> Z -> bool -> T -> T.

Fixpoint agg_loop (op maxnan nval : Z) (l : list (Z * T)) (s : aggst) : kres aggst :=
  match l with
  | [] => KDone s
  | (ia, x) :: l' =>
      if ia <? ag_prev s then KErrOrder
      else
        let flush := negb (ia =? ag_prev s) in
        if flush && (nval <=? ag_count s + 1) then KErrCount
        else
          let s1 := if flush
                    then mkAgg ia (n0 N) 0 0 (ag_count s + 1)
                               (ag_out s ++ [agg_close op maxnan s])
                    else s in
          let valid := negb (nisnan N x) in
          let inp := if valid then x else n0 N in
          let n' := if valid then ag_n s1 + 1 else ag_n s1 in
          let nan' := if valid then ag_nan s1 else ag_nan s1 + 1 in
          agg_loop op maxnan nval l'
            (mkAgg (ag_prev s1) (upd op (ag_agg s1) n' valid inp) n' nan'
                   (ag_count s1) (ag_out s1))
  end.

(* the kernel: returns the output buffer after the run and iend[0] *)
Definition c_aggregate (nval op maxnan : Z) (idx : list Z) (xs outbuf : list T)
  : kres (list T * Z) :=
  match idx with
  | [] => KUndef
  | k0 :: _ =>
      match agg_loop op maxnan nval (combine idx xs) (mkAgg k0 (n0 N) 0 0 0 []) with
      | KDone s =>
          let written := ag_out s ++ [agg_close op maxnan s] in
          KDone (written ++ skipn (length written) outbuf, ag_count s + 1)
      | KUndef => KUndef | KErrOrder => KErrOrder | KErrCount => KErrCount
      end
  end.

(* dutils.aggregate: length check, int32 index, outputs = 0.*inputs, kernel,
   error code -> ValueError, outputs[:iend] *)
Definition py_aggregate (op maxnan : Z) (idx : list Z) (xs : list T) : dres :=
  if negb (Nat.eqb (length idx) (length xs)) then DErrLen
  else
    let outbuf := map (fun x => nmul N (n0 N) x) xs in
    match c_aggregate (Z.of_nat (length xs)) op maxnan (map to_int32 idx) xs outbuf with
    | KUndef => DErrEmpty
    | KErrOrder => DErrOrder
    | KErrCount => DErrCount
    | KDone (buf, iend) => DOk (firstn (Z.to_nat iend) buf)
    end.
End Loop.

(* ------------------------------------------------------------------ *)
(* c_flathomogen                                                        *)

Record flatst := mkFlat {
  fl_prev : Z; fl_agg : T; fl_n : Z; fl_nan : Z;
  fl_grp : list T;     (* inputs[start..i-1] *)
  fl_out : list T      (* outputs[0..start-1] *)
}.

(* for(j=start; j<i; j++) outputs[j] = isnan(inputs[j]) ? nan : agg/nagg *)
Definition flat_emit (maxnan : Z) (s : flatst) : list T :=
  let agg := if maxnan <? fl_nan s then nnan N else fl_agg s in
  map (fun inp => if nisnan N inp then nnan N else ndiv N agg (nofZ N (fl_n s)))
      (fl_grp s).

Fixpoint flat_loop (maxnan : Z) (l : list (Z * T)) (s : flatst) : kres flatst :=
  match l with
  | [] => KDone s
  | (ia, x) :: l' =>
      if ia <? fl_prev s then KErrOrder
      else
        let s1 := if negb (ia =? fl_prev s)
                  then mkFlat ia (n0 N) 0 0 [] (fl_out s ++ flat_emit maxnan s)
                  else s in
        let valid := negb (nisnan N x) in
        let inp := if valid then x else n0 N in
        flat_loop maxnan l'
          (mkFlat (fl_prev s1) (nadd N (fl_agg s1) inp)
                  (if valid then fl_n s1 + 1 else fl_n s1)
                  (if valid then fl_nan s1 else fl_nan s1 + 1)
                  (fl_grp s1 ++ [x]) (fl_out s1))
  end.

Definition c_flathomogen (maxnan : Z) (idx : list Z) (xs : list T) : kres (list T) :=
  match idx with
  | [] => KUndef
  | k0 :: _ =>
      match flat_loop maxnan (combine idx xs) (mkFlat k0 (n0 N) 0 0 [] []) with
      | KDone s => KDone (fl_out s ++ flat_emit maxnan s)
      | KUndef => KUndef | KErrOrder => KErrOrder | KErrCount => KErrCount
      end
  end.

Definition py_flathomogen (maxnan : Z) (idx : list Z) (xs : list T) : dres :=
  if negb (Nat.eqb (length idx) (length xs)) then DErrLen
  else match c_flathomogen maxnan (map to_int32 idx) xs with
       | KUndef => DErrEmpty
       | KErrOrder => DErrOrder
       | KErrCount => DErrCount
       | KDone out => DOk out
       end.

End Dutils.

(* ------------------------------------------------------------------ *)
(* c_dateutils.c                                                        *)

(* C's % truncates toward zero: Z.rem *)
Definition is_leap (y : Z) : bool :=
  (Z.rem y LEAP_A =? 0) && (negb (Z.rem y LEAP_B =? 0) || (Z.rem y LEAP_C =? 0)).

Definition days_in_month (y m : Z) : Z :=
  if (m <? 1) || (12 <? m) then -1
  else let n := nth (Z.to_nat m) DAYS_IN_MONTH 0 in
       if is_leap y && (m =? 2) then n + 1 else n.

(* date = (year, month, day); None = DATEUTILS_ERROR + __LINE__ *)
Definition c_add1month (d : Z * Z * Z) : option (Z * Z * Z) :=
  let '(y, m, day) := d in
  let (y1, m1) := if m <? 12 then (y, m + 1) else (y + 1, 1) in
  let nb := days_in_month y1 m1 in
  if nb <? 0 then None
  else Some (y1, m1, if nb <? day then nb else day).

Definition c_add1day (d : Z * Z * Z) : option (Z * Z * Z) :=
  let '(y, m, day) := d in
  let nb := days_in_month y m in
  if nb <? 0 then None
  else if day <? nb then Some (y, m, day + 1)
  else if day =? nb then (if m <? 12 then Some (y, m + 1, 1) else Some (y + 1, 1, 1))
  else None.

(* month starts: sec.index of a complete "MS" series *)
Definition next_month (ym : Z * Z) : Z * Z :=
  let (y, m) := ym in if m <? 12 then (y, m + 1) else (y + 1, 1).

Fixpoint months_from (ym : Z * Z) (n : nat) : list (Z * Z) :=
  match n with
  | O => []
  | S n' => ym :: months_from (next_month ym) n'
  end.

(* ------------------------------------------------------------------ *)
(* dutils.monthly2daily                                                 *)

Section M2D.
Context {T : Type} (N : NumOps T).

(* sec[isnull(sec)] = minthreshold - 1 *)
Definition m2d_fill (minthr v : T) : T :=
  if nisnan N v then nsub N minthr (n1 N) else v.

(* flat: ffill over the days of the month, / days_in_month, values below
   minthreshold set to NaN *)
Definition m2d_flat_month (minthr : T) (nd : Z) (v : T) : list T :=
  let q := ndiv N (m2d_fill minthr v) (nofZ N nd) in
  repeat (if nltb N q minthr then nnan N else q) (Z.to_nat nd).

Definition m2d_flat (minthr : T) (start : Z * Z) (vals : list T) : list T :=
  flat_map (fun p => m2d_flat_month minthr (days_in_month (fst (fst p)) (snd (fst p))) (snd p))
           (combine (months_from start (length vals)) vals).

(* cubic.  One record per month: number of days, y, const[1] = d0*n, const[2] = d1*n *)
Record mrec := mkM { m_nd : Z; m_y : T; m_a : T; m_b : T }.

(* u = y/dx ; dyc = [u0, (u[1:]+u[:-1])/2, u[-1]] *)
Definition m2d_u (nds : list Z) (ys : list T) : list T :=
  map (fun p => ndiv N (snd p) (nofZ N (fst p))) (combine nds ys).

Fixpoint mids (u : list T) : list T :=
  match u with
  | a :: ((b :: _) as r) => ndiv N (nadd N b a) (nofZ N 2) :: mids r
  | _ => []
  end.

Definition m2d_dyc (u : list T) : list T :=
  match u with
  | [] => []
  | u0 :: _ => u0 :: mids u ++ [last u u0]
  end.

(* const = [y, dyc[:-1]*ndays, dyc[1:]*ndays] *)
Fixpoint m2d_recs (nds : list Z) (ys dyc : list T) : list mrec :=
  match nds, ys, dyc with
  | nd :: nds', y :: ys', d0 :: ((d1 :: _) as dyc') =>
      mkM nd y (nmul N d0 (nofZ N nd)) (nmul N d1 (nofZ N nd)) :: m2d_recs nds' ys' dyc'
  | _, _, _ => []
  end.

(* the adjustment loop, i = 0 .. n-2, in place and sequential:
   d1 = (W1*(F1+F2) - W2*(d0+d2))/W3; const[2,i] = d1*n_i; const[1,i+1] = d1*n_{i+1} *)
Definition m2d_d1 (cur nxt : mrec) : T :=
  let F1 := ndiv N (m_y cur) (nofZ N (m_nd cur)) in
  let d0 := ndiv N (m_a cur) (nofZ N (m_nd cur)) in
  let d2 := ndiv N (m_b nxt) (nofZ N (m_nd nxt)) in
  let F2 := ndiv N (m_y nxt) (nofZ N (m_nd nxt)) in
  ndiv N (nsub N (nmul N (nofZ N M2D_W1) (nadd N F1 F2))
                 (nmul N (nofZ N M2D_W2) (nadd N d0 d2)))
         (nofZ N M2D_W3).

Fixpoint m2d_smooth (cur : mrec) (rest : list mrec) : list mrec :=
  match rest with
  | [] => [cur]
  | nxt :: rest' =>
      let d1 := m2d_d1 cur nxt in
      mkM (m_nd cur) (m_y cur) (m_a cur) (nmul N d1 (nofZ N (m_nd cur)))
      :: m2d_smooth (mkM (m_nd nxt) (m_y nxt) (nmul N d1 (nofZ N (m_nd nxt))) (m_b nxt)) rest'
  end.

(* coefs = insert(dot(Mi, const), 0, 0).T : [0; c1; c2; c3] *)
Definition m2d_row (row : list Z) (r : mrec) : T :=
  nadd N (nadd N (nmul N (nofZ N (nth 0 row 0)) (m_y r))
                 (nmul N (nofZ N (nth 1 row 0)) (m_a r)))
         (nmul N (nofZ N (nth 2 row 0)) (m_b r)).

Definition m2d_coefs (r : mrec) : list T :=
  n0 N :: map (fun row => m2d_row row r) M2D_MI.

(* numpy.polynomial.polynomial.polyval: c0 = c[-1] + x*0; c0 = c[-i] + c0*x *)
Definition polyval (x : T) (c : list T) : T :=
  match rev c with
  | [] => n0 N
  | cl :: r => fold_left (fun c0 ci => nadd N ci (nmul N c0 x)) r
                         (nadd N cl (nmul N x (n0 N)))
  end.

(* xxt = arange(NGRID)/ndays, NaN beyond 1; yyc = polyval; diff; NaN dropped:
   daily value k = f((k+1)/n) - f(k/n), k < min(n, NGRID-1) *)
Definition m2d_cubic_month (r : mrec) : list T :=
  let c := m2d_coefs r in
  let f := fun k : Z => polyval (ndiv N (nofZ N k) (nofZ N (m_nd r))) c in
  map (fun k => let kz := Z.of_nat k in nsub N (f (kz + 1)) (f kz))
      (seq 0 (Z.to_nat (Z.min (m_nd r) (M2D_NGRID - 1)))).

Definition m2d_cubic_recs (minthr : T) (start : Z * Z) (vals : list T) : list mrec :=
  let nds := map (fun ym => days_in_month (fst ym) (snd ym)) (months_from start (length vals)) in
  let ys := map (m2d_fill minthr) vals in
  match m2d_recs nds ys (m2d_dyc (m2d_u nds ys)) with
  | [] => []
  | r0 :: rest => m2d_smooth r0 rest
  end.

Definition m2d_cubic (minthr : T) (start : Z * Z) (vals : list T) : list T :=
  flat_map m2d_cubic_month (m2d_cubic_recs minthr start vals).

(* interpolation: 0 = "flat", 1 = "cubic", anything else: ValueError *)
Definition py_monthly2daily (interp : Z) (minthr : T) (start : Z * Z) (vals : list T) : dres (T:=T) :=
  if interp =? 0 then DOk (m2d_flat minthr start vals)
  else if interp =? 1 then DOk (m2d_cubic minthr start vals)
  else DErrArg.

End M2D.

(* ------------------------------------------------------------------ *)
(* correspondence-check glue (binary64 instance)                        *)
From Coq Require Import PrimFloat.

(* |a-b| <= atol, or the same datum *)
Definition f_absclose (atol a b : float) : bool :=
  f_same a b ||
  (negb (PrimFloat.is_nan a) && negb (PrimFloat.is_nan b) &&
   PrimFloat.leb (PrimFloat.abs (PrimFloat.sub a b)) atol).

Definition zdate (d : Z * Z * Z) : list Z := let '(y, m, k) := d in [y; m; k].
Definition date_of (l : list Z) : Z * Z * Z := (nth 0 l 0, nth 1 l 0, nth 2 l 0).

(* expect = None: the call raised ValueError *)
Inductive dcase :=
| CAgg (op maxnan : Z) (idx : list Z) (xs : list float) (expect : option (list float))
| CFlat (maxnan : Z) (idx : list Z) (xs : list float) (expect : option (list float))
| CDim (y m d : Z)
| CLeap (y b : Z)
| CAdd1m (date : list Z) (expect : option (list Z))
| CAdd1d (date : list Z) (expect : option (list Z))
(* monthly2daily: interpolation, minthreshold, start (y,m), values, tolerance, output *)
| CM2D (interp : Z) (minthr : float) (y m : Z) (vals : list float) (atol : float)
       (expect : option (list float)).

Definition dres_ok (eq : float -> float -> bool) (r : dres (T:=float)) (e : option (list float)) : bool :=
  match r, e with
  | DOk out, Some w => list_same eq out w
  | DOk _, None => false
  | _, None => true
  | _, Some _ => false
  end.

Definition zlist_opt_ok (r : option (Z * Z * Z)) (e : option (list Z)) : bool :=
  match r, e with
  | Some d, Some w => list_same Z.eqb (zdate d) w
  | None, None => true
  | _, _ => false
  end.

Definition d_ok_with (upd : Z -> float -> Z -> bool -> float -> float) (c : dcase) : bool :=
  match c with
  | CAgg op maxnan idx xs e => dres_ok f_same (py_aggregate F64 upd op maxnan idx xs) e
  | CFlat maxnan idx xs e => dres_ok f_same (py_flathomogen F64 maxnan idx xs) e
  | CDim y m d => days_in_month y m =? d
  | CLeap y b => (if is_leap y then 1 else 0) =? b
  | CAdd1m d e => zlist_opt_ok (c_add1month (date_of d)) e
  | CAdd1d d e => zlist_opt_ok (c_add1day (date_of d)) e
  | CM2D interp minthr y m vals atol e =>
      dres_ok (if interp =? 0 then f_same else f_absclose atol)
              (py_monthly2daily F64 interp minthr (y, m) vals) e
  end.

Definition d_ok : dcase -> bool := d_ok_with (agg_upd F64).
(* the same comparison against the kernel as pinned; used only to document the
   two repaired defects (Props/C08.v, notes/C08.md) *)
Definition d_ok_pinned : dcase -> bool := d_ok_with (agg_upd_pinned F64).
