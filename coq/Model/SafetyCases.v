(* C05 - correspondence glue: one case = the arguments given to a kernel by the
   sanitizer driver (every buffer malloc'ed at its exact length) + what the driver
   observed (crashed or not, return code, final content / write footprint of every
   buffer).  [k_ok] runs the repaired model ([fx = true]) in binary64 and compares.
   No proofs in this file. *)
From Coq Require Import ZArith Bool List String PrimFloat.
From Hy Require Import Base.Num Gen.ConstsC05 Model.Safety Model.SafetyGis Model.SafetyStat.
Import ListNotations.
Open Scope Z_scope.

(* sentinel the driver pre-fills integer output buffers with *)
Definition SENT : Z := 6510615555426900570.       (* 0x5A5A5A5A5A5A5A5A *)
Definition sentZ (n : Z) : list Z := repeat SENT (Z.to_nat n).
Definition nomark (n : Z) : list bool := repeat false (Z.to_nat n).
Definition noneZ (n : Z) : list (option Z) := repeat None (Z.to_nat n).

Definition oeqb (a b : option Z) : bool :=
  match a, b with Some x, Some y => x =? y | None, None => true | _, _ => false end.
Definition zs_same := list_same Z.eqb.
Definition bs_same := list_same Bool.eqb.
Definition os_same := list_same oeqb.
Definition fs_same := list_same f_same.

(* return codes: equal, or both a (line-number dependent) positive error code *)
Definition rc_same (c rc : Z) : bool := (c =? rc) || ((0 <? c) && (0 <? rc)).

(* the model never fails on these cases and answers like the implementation *)
Definition agree {S} (r : step S) (crashed : bool) (rc : Z) (f : S -> bool) : bool :=
  match r with
  | Ret c s => negb crashed && rc_same c rc && f s
  | _ => false
  end.

Inductive kcase :=
| KAggregate (nval : Z) (aggindex : list Z) (crashed : bool) (rc : Z)
    (outw : list bool) (iend : list (option Z))
| KFlathomogen (nval : Z) (aggindex : list Z) (crashed : bool) (rc : Z) (outw : list bool)
| KIslin (nval : Z) (thresh tol : float) (npoints : Z) (data : list float)
    (crashed : bool) (rc : Z) (out : list (option Z))
| KEckhardt (nval ttype : Z) (thresh bfi : float) (crashed : bool) (rc : Z) (outw : list bool)
| KVar2h (nvalvar nvalh nbsec rainfall : Z) (varsec : list Z) (hstartsec : Z)
    (crashed : bool) (rc : Z) (outw : list bool)
| KCell2rowcol (nrows ncols nval : Z) (idxcell : list Z) (crashed : bool) (rc : Z) (rowcols : list Z)
| KCell2coord (nrows ncols nval : Z) (idxcell : list Z) (crashed : bool) (rc : Z) (xyw : list bool)
| KNeighbours (nrows ncols idx : Z) (crashed : bool) (rc : Z) (nb : list Z)
| KUpstream (nrows ncols : Z) (code flowdir : list Z) (nval : Z) (idxdown : list Z)
    (crashed : bool) (rc : Z) (idxup : list Z)
| KDownstream (nrows ncols : Z) (code flowdir : list Z) (nval : Z) (idxup : list Z)
    (crashed : bool) (rc : Z) (idxdown : list Z)
| KAccumulate (nrows ncols nprint maxacc : Z) (code flowdir : list Z) (crashed : bool) (rc : Z)
| KSlope (nrows ncols nprint : Z) (code flowdir : list Z) (crashed : bool) (rc : Z) (sw : list bool)
| KDelineateArea (nrows ncols : Z) (code flowdir : list Z) (outlet : Z) (inlets : list Z) (nval : Z)
    (crashed : bool) (rc : Z) (area b1 b2 : list Z)
| KDelineateBoundary (nrows ncols nval : Z) (area mask : list Z)
    (crashed : bool) (rc : Z) (sorted buffer out : list Z)
| KRiver (nrows ncols : Z) (code flowdir : list Z) (idxup nval : Z)
    (crashed : bool) (rc : Z) (npoints cells : list Z) (dataw : list bool)
| KFlowpath (nrows ncols : Z) (code flowdir : list Z) (nval : Z) (area : list Z) (outlet : Z)
    (crashed : bool) (rc : Z) (fplw : list bool)
| KCoord2cell (nrows ncols : Z) (xll yll csz : float) (nval : Z) (xy : list float)
    (crashed : bool) (rc : Z) (idxcell : list Z)
| KIntersect (nrows ncols : Z) (xll yll csz : float) (nval : Z) (xy : list float) (ncells : Z)
    (crashed : bool) (rc : Z) (npoints idxcells : list Z) (ww : list bool)
| KVoronoi (nrows ncols : Z) (xll yll csz : float) (ncells : Z) (area : list Z) (npoints : Z)
    (xyp : list float) (crashed : bool) (rc : Z) (weights : list float)
| KInside (nprint npoints : Z) (points : list float) (nvertices : Z) (polygon xlim ylim : list float)
    (crashed : bool) (rc : Z) (insw : list bool)
| KArmodel (resid : bool) (nval nparams : Z) (mean ini : float) (params inputs : list float)
    (crashed : bool) (rc : Z) (outw : list bool)
| KCrps (nval ncol use_weights nweights : Z) (sim : list float) (crashed : bool) (rc : Z) (tablew : list bool)
| KEnsrank (eps : float) (nval ncol : Z) (crashed : bool) (rc : Z) (fmatw ranksw : list bool)
| KAdtest (n : Z) (x : list float) (crashed : bool) (rc : Z) (outw : list bool)
| KPareto (nval ncol : Z) (orient : float) (data : list float) (crashed : bool) (rc : Z) (isdom : list Z)
| KAdd1month (date : list Z) (crashed : bool) (rc : Z) (out : list Z)
| KAdd1day (date : list Z) (crashed : bool) (rc : Z) (out : list Z)
| KCompare (d1 d2 : list Z) (crashed : bool) (rc : Z)
| KGetdate (day : float) (crashed : bool) (rc : Z) (out : list Z)
| KDaysinmonth (year month : Z) (crashed : bool) (rc : Z)
| KDayofyear (month day : Z) (crashed : bool) (rc : Z).

Definition res_agree (r : res Z) (crashed : bool) (rc : Z) : bool :=
  match r with Ok v => negb crashed && (v =? rc) | Err _ => false end.

Definition k_ok (c : kcase) : bool :=
  match c with
  | KAggregate nval aggindex crashed rc outw iend =>
      agree (aggregate true nval aggindex nval (nomark nval) (noneZ 1)) crashed rc
        (fun s => bs_same (ag_out s) outw && os_same (ag_iend s) iend)
  | KFlathomogen nval aggindex crashed rc outw =>
      agree (flathomogen true nval aggindex nval (nomark nval)) crashed rc
        (fun s => bs_same (fh_out s) outw)
  | KIslin nval thresh tol npoints data crashed rc out =>
      agree (islin F64 true nval thresh tol npoints data (noneZ nval)) crashed rc
        (fun s => os_same (il_out s) out)
  | KEckhardt nval ttype thresh bfi crashed rc outw =>
      agree (eckhardt F64 true nval ttype thresh bfi nval (nomark nval)) crashed rc
        (fun s => bs_same s outw)
  | KVar2h nvalvar nvalh nbsec rainfall varsec hstartsec crashed rc outw =>
      agree (var2h F64 true nvalvar nvalh nbsec rainfall varsec nvalvar hstartsec (nomark nvalh))
        crashed rc (fun s => bs_same (vh_out s) outw)
  | KCell2rowcol nrows ncols nval idxcell crashed rc rowcols =>
      agree (cell2rowcol nrows ncols nval idxcell (sentZ (2 * nval))) crashed rc
        (fun s => zs_same s rowcols)
  | KCell2coord nrows ncols nval idxcell crashed rc xyw =>
      agree (cell2coord nrows ncols nval idxcell (nomark (2 * nval))) crashed rc
        (fun s => bs_same s xyw)
  | KNeighbours nrows ncols idx crashed rc nb =>
      agree (neighbours nrows ncols idx (sentZ 9)) crashed rc (fun s => zs_same s nb)
  | KUpstream nrows ncols code flowdir nval idxdown crashed rc idxup =>
      agree (upstream nrows ncols code flowdir nval idxdown (sentZ (9 * nval))) crashed rc
        (fun s => zs_same s idxup)
  | KDownstream nrows ncols code flowdir nval idxup crashed rc idxdown =>
      agree (downstream nrows ncols code flowdir nval idxup (sentZ nval)) crashed rc
        (fun s => zs_same s idxdown)
  | KAccumulate nrows ncols nprint maxacc code flowdir crashed rc =>
      agree (accumulate true nrows ncols nprint maxacc code flowdir (nrows * ncols) (nrows * ncols))
        crashed rc (fun _ => true)
  | KSlope nrows ncols nprint code flowdir crashed rc sw =>
      agree (slope true nrows ncols nprint code flowdir (nrows * ncols) (nomark (nrows * ncols)))
        crashed rc (fun s => bs_same s sw)
  | KDelineateArea nrows ncols code flowdir outlet inlets nval crashed rc area b1 b2 =>
      agree (delineate_area nrows ncols code flowdir outlet (Zlen inlets) inlets nval
               (sentZ nval) (sentZ nval) (sentZ nval)) crashed rc
        (fun s => zs_same (da_area s) area && zs_same (da_b1 s) b1 && zs_same (da_b2 s) b2)
  | KDelineateBoundary nrows ncols nval area mask crashed rc sorted buffer out =>
      agree (delineate_boundary F64 true nrows ncols nval area (sentZ nval) mask (sentZ nval))
        crashed rc
        (fun s => zs_same (fst s) sorted && zs_same (bd_buf (snd s)) buffer &&
                  zs_same (bd_out (snd s)) out)
  | KRiver nrows ncols code flowdir idxup nval crashed rc npoints cells dataw =>
      agree (delineate_river nrows ncols code flowdir idxup nval (sentZ 1) (sentZ nval)
               (nomark (RIVER_NCOLS * nval))) crashed rc
        (fun s => zs_same (rv_np s) npoints && zs_same (rv_cells s) cells &&
                  bs_same (rv_data s) dataw)
  | KFlowpath nrows ncols code flowdir nval area outlet crashed rc fplw =>
      agree (flowpathlengths nrows ncols code flowdir nval area outlet (nomark (3 * nval)))
        crashed rc (fun s => bs_same s fplw)
  | KCoord2cell nrows ncols xll yll csz nval xy crashed rc idxcell =>
      agree (coord2cell F64 true nrows ncols xll yll csz nval xy (sentZ nval)) crashed rc
        (fun s => zs_same s idxcell)
  | KIntersect nrows ncols xll yll csz nval xy ncells crashed rc npoints idxcells ww =>
      agree (intersect F64 true nrows ncols xll yll csz nval xy (sentZ 1) (sentZ ncells)
               (nomark ncells)) crashed rc
        (fun s => zs_same (fst s) npoints && zs_same (is_cells (snd s)) idxcells &&
                  bs_same (is_w (snd s)) ww)
  | KVoronoi nrows ncols xll yll csz ncells area npoints xyp crashed rc weights =>
      agree (voronoi F64 true nrows ncols xll yll csz ncells area npoints xyp
               (repeat PrimFloat.nan (Z.to_nat npoints))) crashed rc
        (fun s => (negb (rc =? 0)) || fs_same s weights)
  | KInside nprint npoints points nvertices polygon xlim ylim crashed rc insw =>
      agree (inside F64 nprint npoints points nvertices polygon xlim ylim (nomark npoints))
        crashed rc (fun s => bs_same s insw)
  | KArmodel resid nval nparams mean ini params inputs crashed rc outw =>
      agree (armodel F64 resid nval nparams mean ini params inputs (nomark nval)) crashed rc
        (fun s => bs_same s outw)
  | KCrps nval ncol use_weights nweights sim crashed rc tablew =>
      agree (crps F64 nval ncol use_weights nval sim nweights
               (nomark ((ncol + 1) * CRPS_TABLE_NCOLS)) 5) crashed rc
        (fun s => (negb (rc =? 0)) || bs_same s tablew)
  | KEnsrank eps nval ncol crashed rc fmatw ranksw =>
      agree (ensrank F64 eps nval ncol (nval * ncol) (nomark (nval * nval)) (nomark nval))
        crashed rc (fun s => bs_same (fst s) fmatw && bs_same (snd s) ranksw)
  | KAdtest n x crashed rc outw =>
      agree (adtest F64 n x (nomark 2)) crashed rc (fun s => bs_same s outw)
  | KPareto nval ncol orient data crashed rc isdom =>
      agree (paretofront F64 nval ncol orient data (sentZ nval)) crashed rc
        (fun s => zs_same s isdom)
  | KAdd1month date crashed rc out =>
      agree (add1month true date) crashed rc (fun s => zs_same s out)
  | KAdd1day date crashed rc out =>
      agree (add1day true date) crashed rc (fun s => zs_same s out)
  | KCompare d1 d2 crashed rc =>
      match comparedates d1 d2 with Ret c _ => negb crashed && (c =? rc) | _ => false end
  | KGetdate day crashed rc out =>
      agree (getdate F64 true day (sentZ 3)) crashed rc (fun s => zs_same s out)
  | KDaysinmonth year month crashed rc => res_agree (daysinmonth year month) crashed rc
  | KDayofyear month day crashed rc => res_agree (dayofyear month day) crashed rc
  end.
