(* Model of c_accumulate (src/hydrodiy/gis/c_grid.c, after the fix: commit that
   adds the START cell's value) and of the initialisation done by
   hydrodiy.gis.grid.accumulate (accumulation = copy of the field) - property C11. *)
From Coq Require Import ZArith Bool List Lia.
From Hy Require Import Base.Num Gen.Consts Model.Grid Model.Catchment.
Import ListNotations.
Open Scope Z_scope.

(* the capped downstream walk of one start cell: the cells visited (down^1, down^2, ...)
   and how it ended: Some t = the chain left the grid at terminal cell t,
   None = the cap on the number of steps was hit.  The walk depends on the
   flow directions only, so it can be computed before the updates are applied. *)
Fixpoint dpath (fuel : nat) (nrows ncols : Z) (fd : list Z) (up : Z) : list Z * option Z :=
  match fuel with
  | O => ([], None)
  | S f =>
      match downstream nrows ncols fd up with
      | Some d =>
          if d <? 0 then ([], Some up)
          else let (p, t) := dpath f nrows ncols fd d in (d :: p, t)
      | None => ([], None)
      end
  end.

(* the cell numbers i, i+1, ..., i+n-1 *)
Fixpoint zseq (i : Z) (n : nat) : list Z :=
  match n with O => [] | S n' => i :: zseq (i + 1) n' end.

(* update one element of a list (index as Z) *)
Fixpoint upd {A} (l : list A) (i : Z) (f : A -> A) : list A :=
  match l with
  | [] => []
  | x :: r => if i =? 0 then f x :: r else x :: upd r (i - 1) f
  end.

Section Acc.
Context {T : Type} (N : NumOps T).

(* one iteration of the outer loop, start cell i: [v d] is added to every
   visited cell d, then the terminal cell is overwritten with no-data *)
Definition walk_apply_gen (v : Z -> T) (fuel : nat) (nrows ncols : Z) (fd : list Z)
           (nodata : T) (acc : list T) (i : Z) : list T :=
  let (p, t) := dpath fuel nrows ncols fd i in
  let acc1 := fold_left (fun a d => upd a d (fun x => nadd N x (v d))) p acc in
  match t with
  | Some c => upd acc1 c (fun _ => nodata)
  | None => acc1
  end.

(* the repaired kernel: the START cell's value is added along its walk *)
Definition walk_apply (fuel : nat) (nrows ncols : Z) (fd : list Z) (field : list T)
           (nodata : T) (acc : list T) (i : Z) : list T :=
  walk_apply_gen (fun _ => zn field i (n0 N)) fuel nrows ncols fd nodata acc i.

(* the kernel at the pinned commit: each visited cell received ITS OWN value again *)
Definition walk_apply_pinned (fuel : nat) (nrows ncols : Z) (fd : list Z) (field : list T)
           (nodata : T) (acc : list T) (i : Z) : list T :=
  walk_apply_gen (fun d => zn field d (n0 N)) fuel nrows ncols fd nodata acc i.

(* while(accumulated_cells <= max): at most max+1 iterations;
   the accumulation starts as a copy of the field (grid.py) *)
Definition accumulate_with (wa : nat -> Z -> Z -> list Z -> list T -> T -> list T -> Z -> list T)
           (nrows ncols maxcells : Z) (nodata : T) (fd : list Z) (field : list T)
  : option (list T) :=
  if maxcells <? 1 then None
  else if nrows <? 1 then None
  else Some (fold_left (wa (Z.to_nat (maxcells + 1)) nrows ncols fd field nodata)
                       (zseq 0 (Z.to_nat (nrows * ncols))) field).

Definition accumulate := accumulate_with walk_apply.
Definition accumulate_pinned := accumulate_with walk_apply_pinned.
End Acc.

(* ---------------- correspondence glue ---------------- *)
From Coq Require Import PrimFloat.
Record acase := {
  a_nrows : Z; a_ncols : Z; a_max : Z; a_nodata : float; a_fd : list Z;
  a_field : list float; a_expect : option (list float) }.

Definition a_ok (c : acase) : bool :=
  match accumulate F64 (a_nrows c) (a_ncols c) (a_max c) (a_nodata c) (a_fd c) (a_field c),
        a_expect c with
  | Some r, Some e => list_same f_same r e
  | None, None => true
  | _, _ => false
  end.
