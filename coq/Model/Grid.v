(* Model of src/hydrodiy/gis/c_grid.c (geometry, neighbours, upstream,
   downstream) - shared by C06, C07, C11, C16.  Integers are Z; C's `/` and
   `%` on long long are Z.quot / Z.rem; coordinates are generic over NumOps. *)
From Coq Require Import ZArith Bool List Lia.
From Hy Require Import Base.Num Gen.Consts.
Import ListNotations.
Open Scope Z_scope.

(* ---------------- cell numbering ---------------- *)
(* getnxy: nxy[0] = idx % ncols (column), nxy[1] = (idx - nxy[0]) / ncols (row from the top) *)
Definition getnx (ncols idx : Z) : Z := Z.rem idx ncols.
Definition getny (ncols idx : Z) : Z := Z.quot (idx - Z.rem idx ncols) ncols.

Definition valid_cell (nrows ncols idx : Z) : bool :=
  negb ((idx <? 0) || (nrows * ncols <=? idx)).

(* c_cell2rowcol: (row, col), (-1,-1) for an invalid cell number *)
Definition cell2rowcol (nrows ncols idx : Z) : Z * Z :=
  if valid_cell nrows ncols idx then (getny ncols idx, getnx ncols idx) else (-1, -1).

(* c_neighbours: slot k = 1+ix+(1+iy)*3, centre and off-grid = -1; None = error code *)
Definition offsets : list (Z * Z) :=
  [(-1,-1); (0,-1); (1,-1); (-1,0); (0,0); (1,0); (-1,1); (0,1); (1,1)].

Definition neighbour_at (nrows ncols nx0 ny0 : Z) (o : Z * Z) : Z :=
  let (ix, iy) := o in
  if (ix =? 0) && (iy =? 0) then -1
  else
    let nx := nx0 + ix in
    let ny := ny0 + iy in
    if (nx <? 0) || (ncols - 1 <? nx) || (ny <? 0) || (nrows - 1 <? ny) then -1
    else ny * ncols + nx.

Definition neighbours_raw (nrows ncols idx : Z) : list Z :=
  map (neighbour_at nrows ncols (getnx ncols idx) (getny ncols idx)) offsets.

Definition neighbours (nrows ncols idx : Z) : option (list Z) :=
  if valid_cell nrows ncols idx then Some (neighbours_raw nrows ncols idx) else None.

(* ---------------- coordinates ---------------- *)
Section Geom.
Context {T : Type} (O : NumOps T).

Definition nhalf : T := ndiv O (n1 O) (nadd O (n1 O) (n1 O)).

(* getcoord: centre of the cell *)
Definition getcoord (nrows ncols : Z) (xll yll csz : T) (idx : Z) : T * T :=
  (nadd O xll (nmul O csz (nadd O (nofZ O (getnx ncols idx)) nhalf)),
   nadd O yll (nmul O csz (nadd O (nofZ O (nrows - 1 - getny ncols idx)) nhalf))).

(* c_cell2coord: NaN pair for an invalid cell number *)
Definition cell2coord (nrows ncols : Z) (xll yll csz : T) (idx : Z) : T * T :=
  if valid_cell nrows ncols idx then getcoord nrows ncols xll yll csz idx
  else (nnan O, nnan O).

(* c_coord2cell after the floor repair (fix: commit in /repo):
     nx = (long long)floor((x-xll)/csz);  ny = nrows-1-(long long)floor((y-yll)/csz)
   A quotient that is NaN or outside the long long range gives -1
   (cvttsd2si yields INT64_MIN; both range tests then fail). *)
Definition coord2cell (nrows ncols : Z) (xll yll csz : T) (xy : T * T) : Z :=
  match nfloor O (ndiv O (nsub O (fst xy) xll) csz),
        nfloor O (ndiv O (nsub O (snd xy) yll) csz) with
  | Some fx, Some fy =>
      let nx := fx in
      let ny := nrows - 1 - fy in
      if (nx <? 0) || (ncols <=? nx) || (ny <? 0) || (nrows <=? ny) then -1
      else ny * ncols + nx
  | _, _ => -1
  end.

(* the kernel as it was at the pinned commit: truncation toward zero *)
Definition coord2cell_trunc (nrows ncols : Z) (xll yll csz : T) (xy : T * T) : Z :=
  match ntrunc O (ndiv O (nsub O (fst xy) xll) csz),
        ntrunc O (ndiv O (nsub O (snd xy) yll) csz) with
  | Some fx, Some fy =>
      let nx := fx in
      let ny := nrows - 1 - fy in
      if (nx <? 0) || (ncols <=? nx) || (ny <? 0) || (nrows <=? ny) then -1
      else ny * ncols + nx
  | _, _ => -1
  end.

End Geom.

(* ---------------- flow directions ---------------- *)
Definition zn {A} (l : list A) (i : Z) (d : A) : A := nth (Z.to_nat i) l d.

Definition slots : list Z := [0; 1; 2; 3; 4; 5; 6; 7; 8].

(* c_downstream for one cell: None = error (invalid cell number);
   -2 sink; -1 off-grid or code not in the table; the LAST matching slot wins *)
Definition downstream_with (codes : list Z) (nrows ncols : Z) (fd : list Z) (idx : Z) : option Z :=
  if valid_cell nrows ncols idx then
    let f := zn fd idx 0 in
    if f =? 0 then Some (-2)
    else
      let ng := neighbours_raw nrows ncols idx in
      Some (fold_left (fun acc j => if f =? zn codes j 0 then zn ng j (-1) else acc) slots (-1))
  else None.
Definition downstream := downstream_with FLOWDIRCODE.

(* c_upstream for one cell: matches packed to the front, padded with -1 to 9 entries *)
Definition upstream_hits_with (codes : list Z) (nrows ncols : Z) (fd : list Z) (idx : Z) : list Z :=
  let ng := neighbours_raw nrows ncols idx in
  flat_map (fun j =>
     let nb := zn ng j (-1) in
     if nb =? -1 then []
     else
       let f := zn fd nb 0 in
       if f =? 0 then []
       else if f =? zn codes (8 - j) 0 then [nb] else []) slots.
Definition upstream_hits := upstream_hits_with FLOWDIRCODE.

Definition pad9 (l : list Z) : list Z := l ++ repeat (-1) (9 - List.length l).

Definition upstream (nrows ncols : Z) (fd : list Z) (idx : Z) : option (list Z) :=
  if valid_cell nrows ncols idx then Some (pad9 (upstream_hits nrows ncols fd idx)) else None.

(* ---------------- correspondence glue (binary64) ---------------- *)
From Coq Require Import PrimFloat.
Inductive gcase :=
| GCoord2cell (nrows ncols : Z) (xll yll csz x y : float) (expect : Z)
| GCell2coord (nrows ncols : Z) (xll yll csz : float) (idx : Z) (ex ey : float)
| GRowcol (nrows ncols idx : Z) (er ec : Z)
| GNeigh (nrows ncols idx : Z) (expect : option (list Z)).

Definition zlist_eqb := list_same Z.eqb.

Definition g_ok (c : gcase) : bool :=
  match c with
  | GCoord2cell nr nc xll yll csz x y e => coord2cell F64 nr nc xll yll csz (x, y) =? e
  | GCell2coord nr nc xll yll csz idx ex ey =>
      let (x, y) := cell2coord F64 nr nc xll yll csz idx in f_same x ex && f_same y ey
  | GRowcol nr nc idx er ec =>
      let (r, c) := cell2rowcol nr nc idx in (r =? er) && (c =? ec)
  | GNeigh nr nc idx e =>
      match neighbours nr nc idx, e with
      | Some l, Some l' => zlist_eqb l l'
      | None, None => true
      | _, _ => false
      end
  end.
