(* Model of the rank / PIT / uniformity diagnostics (property C10):
     src/hydrodiy/stat/c_dscore.c          c_ensrank (and its qsort comparator)
     src/hydrodiy/stat/metrics.py          dscore, pit, cramer_von_mises_test,
                                           anderson_darling_test, alpha (CV, AD)
     src/hydrodiy/stat/c_andersondarling.c c_ad_test
     src/hydrodiy/stat/AnDarl.c            ADtest, AD, adinf
   Generic over [NumOps]; the order of floating-point operations is that of the
   C / numpy text.  Literal constants come from Gen/ConstsC10.v (re-extracted
   from the working tree on every run) through the record [DsConsts].

   Library calls that are modelled, not transcribed:
     qsort (glibc, stable merge sort)  -> stable insertion sort [isort_by]
        (for a comparator that is a total preorder on the data - which is the
        hypothesis of the property: values equal or farther apart than the
        tolerances - every stable sort returns the same array);
     numpy sort / argsort              -> [isort_by] / stable ranks;
     numpy.interp, numpy.corrcoef, scipy percentileofscore(kind="rank")
                                       -> their documented formulas, in the
                                          operation order of their sources.
   No proofs in this file. *)
From Coq Require Import ZArith Bool List Reals.
From Hy Require Import Base.Num Gen.Consts Gen.ConstsC10.
Import ListNotations.

(* ------------------------------------------------------------------ *)
(* generic list helpers                                                 *)

Fixpoint insert_by {A} (le : A -> A -> bool) (x : A) (l : list A) : list A :=
  match l with
  | [] => [x]
  | y :: r => if le x y then x :: l else y :: insert_by le x r
  end.

(* stable: an element is placed before the elements it is not greater than,
   and it was in front of all of them in the input *)
Definition isort_by {A} (le : A -> A -> bool) (l : list A) : list A :=
  fold_right (insert_by le) [] l.

Fixpoint zenum {A} (i : Z) (l : list A) : list (Z * A) :=
  match l with
  | [] => []
  | a :: r => (i, a) :: zenum (i + 1) r
  end.

Fixpoint upd_nth {A} (k : nat) (f : A -> A) (l : list A) : list A :=
  match l, k with
  | [], _ => []
  | a :: r, O => f a :: r
  | a :: r, S k' => a :: upd_nth k' f r
  end.

Definition countb {A} (p : A -> bool) (l : list A) : Z :=
  Z.of_nat (length (filter p l)).

(* literal constants of the code, in the arithmetic of the instance *)
Record DsConsts (T : Type) := mkDsConsts {
  k_cmp_tol : T;      (* c_dscore.c compare(): eps *)
  k_eps_min : T;      (* c_ensrank: smallest accepted eps *)
  k_u_tol_num : T;    (* tol = k_u_tol_num/ncold/ncold *)
  k_u_lo_c : T; k_u_low : T;
  k_u_hi_c : T; k_u_high : T; k_u_tie : T;
  k_eps : T;          (* metrics.EPS *)
  k_cst_max : T; k_num_add : T; k_den_one : T; k_pct_div : T;
  k_unif_mul : T; k_unif_sub : T; k_unif_div : T; k_cvm_num : T; k_cvm_den : T;
  k_d_add : T; k_d_div : T;
  k_ad_prev0 : T; k_ad_lo : T; k_ad_hi : T
}.
Arguments k_cmp_tol {T}. Arguments k_eps_min {T}.
Arguments k_u_tol_num {T}. Arguments k_u_lo_c {T}. Arguments k_u_low {T}.
Arguments k_u_hi_c {T}. Arguments k_u_high {T}.
Arguments k_u_tie {T}. Arguments k_eps {T}.
Arguments k_cst_max {T}. Arguments k_num_add {T}. Arguments k_den_one {T}.
Arguments k_pct_div {T}. Arguments k_unif_mul {T}. Arguments k_unif_sub {T}.
Arguments k_unif_div {T}. Arguments k_cvm_num {T}. Arguments k_cvm_den {T}.
Arguments k_d_add {T}. Arguments k_d_div {T}.
Arguments k_ad_prev0 {T}. Arguments k_ad_lo {T}. Arguments k_ad_hi {T}.

Section Dscore.
Context {T : Type} (N : NumOps T) (K : DsConsts T).

Definition tsum (l : list T) : T := fold_left (nadd N) l (n0 N).

(* ================================================================== *)
(* c_dscore.c                                                          *)

(* compare(a,b) <= 0, i.e. not (a[0]-b[0] > eps) *)
Definition ens_le (a b : T * Z) : bool :=
  negb (nltb N (k_cmp_tol K) (nsub N (fst a) (fst b))).

(* the pooled array: value and position, first ensemble in front *)
Definition pool (e1 e2 : list T) : list (T * Z) :=
  map (fun p => (snd p, fst p)) (zenum 0 (e1 ++ e2)).

Record scan := mkScan {
  sc_sum : T; sc_start : T; sc_end : T; sc_nties : T; sc_prev : T }.

(* one iteration of the loop over the sorted pooled array, given the two
   differences [diff] (to the previous value) and [diffnext] (to the next) *)
Definition scan_core (eps : T) (ncol j : Z) (idx : Z) (diff diffnext v : T) (s : scan) : scan :=
  let first := (idx <? ncol)%Z in
  (* start a tie sequence *)
  let b1 := first && nleb N eps diff in
  let st1 := if b1 then nofZ N j else sc_start s in
  let en1 := if b1 then nofZ N j else sc_end s in
  let nt1 := if b1 then n1 N else sc_nties s in
  (* continue the sequence *)
  let b2 := nleb N (n0 N) st1 && nltb N diff eps in
  let en2 := if b2 then nadd N en1 (n1 N) else en1 in
  let nt2 := if b2 then (if first then nadd N nt1 (n1 N) else nt1) else nt1 in
  (* end the sequence *)
  let b3 := nleb N (n0 N) st1 && nleb N eps diffnext in
  let rk := nadd N (n1 N) (ndiv N (nadd N st1 en2) (nofZ N 2)) in
  let sm3 := if b3 then nadd N (sc_sum s) (nmul N rk nt2) else sc_sum s in
  let st3 := if b3 then nofZ N (-1) else st1 in
  mkScan sm3 st3 en2 nt2 v.

(* repaired code: diff = j>0 ? fabs(value-valueprev) : eps;
                  diffnext = j<2*ncol-1 ? fabs(value-valuenext) : eps *)
Fixpoint scan_loop (eps : T) (ncol j : Z) (l : list (T * Z)) (s : scan) : scan :=
  match l with
  | [] => s
  | (v, idx) :: r =>
      let diff := if (j =? 0)%Z then eps else nabs N (nsub N v (sc_prev s)) in
      let diffnext := match r with (v', _) :: _ => nabs N (nsub N v v') | [] => eps end in
      scan_loop eps ncol (j + 1) r (scan_core eps ncol j idx diff diffnext v s)
  end.

(* pinned code: the first element is compared with valueprev = first+1, the
   last one with valuenext = value+1 *)
Fixpoint scan_loop_sentinel (eps : T) (ncol j : Z) (l : list (T * Z)) (s : scan) : scan :=
  match l with
  | [] => s
  | (v, idx) :: r =>
      let vnext := match r with (v', _) :: _ => v' | [] => nadd N v (n1 N) end in
      let diff := nabs N (nsub N v (sc_prev s)) in
      let diffnext := nabs N (nsub N v vnext) in
      scan_loop_sentinel eps ncol (j + 1) r (scan_core eps ncol j idx diff diffnext v s)
  end.

Definition scan_init (sorted : list (T * Z)) : scan :=
  let first := match sorted with (v, _) :: _ => v | [] => n0 N end in
  mkScan (n0 N) (nofZ N (-1)) (nofZ N (-1)) (n0 N) (nadd N first (n1 N)).

(* sum of the (mid-)ranks of the members of e1 inside the pooled sample *)
Definition sumrank (eps : T) (e1 e2 : list T) : T :=
  let ncol := Z.of_nat (length e1) in
  let sorted := isort_by ens_le (pool e1 e2) in
  sc_sum (scan_loop eps ncol 0 sorted (scan_init sorted)).

Definition sumrank_sentinel (eps : T) (e1 e2 : list T) : T :=
  let ncol := Z.of_nat (length e1) in
  let sorted := isort_by ens_le (pool e1 e2) in
  sc_sum (scan_loop_sentinel eps ncol 0 sorted (scan_init sorted)).

(* (sumrank-(ncold+1)*ncold/2)/ncold/ncold *)
Definition F_of_sumrank (ncol : nat) (sr : T) : T :=
  let ncold := nofZ N (Z.of_nat ncol) in
  ndiv N (ndiv N (nsub N sr (ndiv N (nmul N (nadd N ncold (n1 N)) ncold) (nofZ N 2)))
                 ncold) ncold.

Definition pairF (eps : T) (e1 e2 : list T) : T :=
  F_of_sumrank (length e1) (sumrank eps e1 e2).
Definition pairF_sentinel (eps : T) (e1 e2 : list T) : T :=
  F_of_sumrank (length e1) (sumrank_sentinel eps e1 e2).

(* F -> u with a given tolerance: u = F<0.5-tol ? 0. : F>0.5+tol ? 1. : 0.5 *)
Definition u_of_F_tol (tol F : T) : T :=
  if nltb N F (nsub N (k_u_lo_c K) tol) then k_u_low K
  else if nltb N (nadd N (k_u_hi_c K) tol) F then k_u_high K
  else k_u_tie K.

(* repaired code: tol = 0.25/ncold/ncold (F is a multiple of 1/(2 ncol^2)) *)
Definition u_tol (ncol : nat) : T :=
  let ncold := nofZ N (Z.of_nat ncol) in ndiv N (ndiv N (k_u_tol_num K) ncold) ncold.
Definition u_of_F (ncol : nat) (F : T) : T := u_of_F_tol (u_tol ncol) F.
(* pinned code: a fixed tolerance ([tol] = the literal 1e-8), whatever the size *)
Definition u_of_F_pinned (tol : T) (F : T) : T := u_of_F_tol tol F.

(* all pairs i1 < i2 in the order of the two loops, with F *)
Fixpoint pairs_from (eps : T) (i1 : Z) (rows : list (list T)) : list (Z * Z * T) :=
  match rows with
  | [] => []
  | r1 :: rest =>
      map (fun kr => (i1, (i1 + 1 + fst kr)%Z, pairF eps r1 (snd kr))) (zenum 0 rest)
      ++ pairs_from eps (i1 + 1) rest
  end.

(* ranks[i1] += u; ranks[i2] += 1.-u *)
Definition rank_step (ncol : nat) (ranks : list T) (p : Z * Z * T) : list T :=
  let '(i1, i2, F) := p in
  let u := u_of_F ncol F in
  upd_nth (Z.to_nat i2) (fun x => nadd N x (nsub N (n1 N) u))
          (upd_nth (Z.to_nat i1) (fun x => nadd N x u) ranks).

Inductive ensres :=
| EnsErr (code : Z)
| EnsOk (fs : list (Z * Z * T)) (ranks : list T).

Definition ensrank (eps : T) (sim : list (list T)) : ensres :=
  if nltb N eps (k_eps_min K) then EnsErr DS_EVALUE
  else
    let ncol := match sim with r :: _ => length r | [] => O end in
    if Nat.eqb ncol 0 || Nat.eqb (length sim) 0 then EnsErr DS_ESIZE
    else
      let fs := pairs_from eps 0 sim in
      EnsOk fs (fold_left (rank_step ncol) fs (map (fun _ => n1 N) sim)).

(* ================================================================== *)
(* metrics.dscore                                                      *)

(* argsort(argsort(x)) with a stable sort: number of smaller values plus
   number of equal values in front *)
Definition rank_in (x : T) (front back : list T) : Z :=
  (countb (fun y => nltb N y x) (front ++ back) + countb (fun y => neqb N y x) front)%Z.

Fixpoint argsort_ranks_from (front : list T) (l : list T) : list Z :=
  match l with
  | [] => []
  | x :: r => rank_in x front r :: argsort_ranks_from (front ++ [x]) r
  end.
Definition argsort_ranks (l : list T) : list Z := argsort_ranks_from [] l.

Definition clip (lo hi x : T) : T :=
  if nltb N x lo then lo else if nltb N hi x then hi else x.

(* numpy.corrcoef(x, y)[0, 1]: centred by the mean, products scaled by
   1/(n-1), divided by the two standard deviations in turn, clipped *)
Definition tmean (l : list T) : T := ndiv N (tsum l) (nofZ N (Z.of_nat (length l))).
Definition centred (l : list T) : list T := let m := tmean l in map (fun x => nsub N x m) l.
Definition tdot (a b : list T) : T := tsum (map (fun p => nmul N (fst p) (snd p)) (combine a b)).
Definition corr_raw (x y : list T) : T :=
  let xc := centred x in let yc := centred y in
  let f := ndiv N (n1 N) (nofZ N (Z.of_nat (length x) - 1)) in
  let cxy := nmul N (tdot xc yc) f in
  let cxx := nmul N (tdot xc xc) f in
  let cyy := nmul N (tdot yc yc) f in
  ndiv N (ndiv N cxy (nsqrt N cxx)) (nsqrt N cyy).
Definition corrcoef (x y : list T) : T := clip (nofZ N (-1)) (n1 N) (corr_raw x y).

Definition dscore_of_ranks (oranks franks : list T) : T :=
  ndiv N (nadd N (corrcoef oranks franks) (k_d_add K)) (k_d_div K).

Definition heads (sim : list (list T)) : list T :=
  map (fun r => match r with x :: _ => x | [] => nnan N end) sim.

(* ranks of the forecasts: argsort for single-member forecasts, the kernel
   otherwise (its return code is ignored by dscore: the zero-initialised
   array is used when the kernel refuses its input) *)
Definition forecast_ranks (eps : T) (sim : list (list T)) : list T :=
  match sim with
  | [_] :: _ => map (nofZ N) (argsort_ranks (heads sim))
  | _ => match ensrank eps sim with
         | EnsOk _ r => r
         | EnsErr _ => map (fun _ => n0 N) sim
         end
  end.

Definition dscore (eps : T) (obs : list T) (sim : list (list T)) : T :=
  dscore_of_ranks (map (nofZ N) (argsort_ranks obs)) (forecast_ranks eps sim).

(* ================================================================== *)
(* metrics.pit                                                         *)

(* __check_ensemble_data: rows with a missing observation, or whose members
   are all missing, are dropped *)
Definition row_valid (o : T) (e : list T) : bool :=
  negb (nisnan N o) && existsb (fun x => negb (nisnan N x)) e.

Definition pit_cst (cst : T) : T :=
  if nltb N cst (k_cst_max K) then cst else k_cst_max K.      (* min(0.5, cst) *)

Definition is_sudo (censor o : T) (e : list T) : bool :=
  let thr := nadd N censor (k_eps K) in
  nltb N o thr && (0 <? countb (fun x => nltb N x thr) e)%Z.

(* random=True: jitters [dobs], [dens] are explicit inputs *)
Definition pit_count (o dob : T) (e de : list T) : Z :=
  countb (fun p => nltb N (nsub N (nadd N (fst p) (snd p)) (nadd N o dob)) (n0 N))
         (combine e de).

Definition pit_of_count (cst : T) (nens count : Z) : T :=
  ndiv N (nsub N (nadd N (nofZ N count) (k_num_add K)) cst)
         (nadd N (nsub N (k_den_one K) cst) (nofZ N nens)).

Definition pit_random (cst o dob : T) (e de : list T) : T :=
  pit_of_count (pit_cst cst) (Z.of_nat (length e)) (pit_count o dob e de).

(* scipy.stats.percentileofscore(e, o, kind="rank"):
   (left + right + (left < right)) * (50.0 / n); NaN among the members -> NaN *)
Definition pct_rank_of (n left right : Z) : T :=
  nmul N (nofZ N (left + right + (if (left <? right)%Z then 1 else 0)))
         (ndiv N (nofZ N 50) (nofZ N n)).

Definition pct_rank (o : T) (e : list T) : T :=
  if existsb (nisnan N) e then nnan N
  else pct_rank_of (Z.of_nat (length e)) (countb (fun x => nltb N x o) e)
                   (countb (fun x => nleb N x o) e).

(* pinned code: percentileofscore(...)/100. *)
Definition pit_rank_noclip (o : T) (e : list T) : T := ndiv N (pct_rank o e) (k_pct_div K).
(* repaired code: clipped to [0, 1] *)
Definition pit_rank (o : T) (e : list T) : T := clip (n0 N) (n1 N) (pit_rank_noclip o e).

Inductive pitres := PitErr | PitOk (pits : list T) (sudo : list bool).

Definition pit (random : bool) (cst censor : T) (obs : list T) (ens : list (list T))
               (dobs : list T) (dens : list (list T)) : pitres :=
  let rows := filter (fun r => row_valid (fst r) (snd r)) (combine obs ens) in
  match rows with
  | [] => PitErr                                  (* "No valid data" *)
  | _ =>
    let sudo := map (fun r => is_sudo censor (fst r) (snd r)) rows in
    let pits :=
      if random
      then map (fun q => pit_random cst (fst (fst q)) (fst (snd q)) (snd (fst q)) (snd (snd q)))
               (combine rows (combine dobs dens))
      else map (fun r => pit_rank (fst r) (snd r)) rows in
    PitOk pits sudo
  end.

(* ================================================================== *)
(* metrics.cramer_von_mises_test                                       *)

Definition cvm_unif (n i : Z) : T :=     (* i = 1..n *)
  ndiv N (ndiv N (nsub N (nmul N (k_unif_mul K) (nofZ N i)) (k_unif_sub K)) (k_unif_div K))
         (nofZ N n).

Definition cvm_terms (n : Z) (sorted : list T) : list T :=
  map (fun p => let d := nsub N (cvm_unif n (fst p)) (snd p) in nmul N d d) (zenum 1 sorted).

Definition cvm_stat (data : list T) : T :=
  let n := Z.of_nat (length data) in
  nadd N (ndiv N (ndiv N (k_cvm_num K) (k_cvm_den K)) (nofZ N n))
         (tsum (cvm_terms n (isort_by (nleb N) data))).

(* numpy.interp for increasing abscissae, with clamping outside *)
Fixpoint interp_go (x : T) (xs ys : list T) : T :=
  match xs, ys with
  | x0 :: ((x1 :: _) as xs'), y0 :: ((y1 :: _) as ys') =>
      if nltb N x x1
      then (if neqb N x0 x then y0
            else nadd N (nmul N (ndiv N (nsub N y1 y0) (nsub N x1 x0)) (nsub N x x0)) y0)
      else interp_go x xs' ys'
  | _ :: _, y0 :: _ => y0
  | _, _ => nnan N
  end.

Definition interp (x : T) (xs ys : list T) : T :=
  if nisnan N x then x
  else match xs, ys with
       | x0 :: _, y0 :: _ =>
           if nltb N x x0 then y0
           else if nltb N (last xs x0) x then last ys y0
           else interp_go x xs ys
       | _, _ => nnan N
       end.

(* np.argmin(np.abs(nsample - CVM_NSAMPLE)): first index of the smallest distance *)
Fixpoint argmin_go (best : Z) (bi i : nat) (l : list Z) : nat :=
  match l with
  | [] => bi
  | d :: r => if (d <? best)%Z then argmin_go d i (S i) r else argmin_go best bi (S i) r
  end.
Definition closest_col (n : Z) (nsample : list Z) : nat :=
  match map (fun s => Z.abs (n - s)) nsample with
  | [] => O
  | d :: r => argmin_go d O 1%nat r
  end.

Definition cvm_pvalue (nsample : list Z) (qq : list T) (cols : list (list T))
                      (n : Z) (stat : T) : T :=
  interp stat qq (nth (closest_col n nsample) cols []).

Definition cvm_test (nsample : list Z) (qq : list T) (cols : list (list T))
                    (data : list T) : T * T :=
  let s := cvm_stat data in
  (s, cvm_pvalue nsample qq cols (Z.of_nat (length data)) s).

(* ================================================================== *)
(* c_andersondarling.c / AnDarl.c: input checks of ADtest              *)

Inductive aderr := AdRange | AdNan | AdOrder.

Fixpoint ad_check_loop (prev : T) (l : list T) : option aderr :=
  match l with
  | [] => None
  | x :: r =>
      if nltb N x (k_ad_lo K) || nltb N (k_ad_hi K) x then Some AdRange
      else if nisnan N x then Some AdNan
      else if nltb N x prev then Some AdOrder
      else ad_check_loop x r
  end.

(* ADtest on the array as given *)
Definition adtest_check (x : list T) : option aderr := ad_check_loop (k_ad_prev0 K) x.

(* compare() of c_andersondarling.c returns <= 0 unless a > b *)
Definition ad_le (a b : T) : bool := negb (nltb N b a).

(* c_ad_test: qsort, then ADtest *)
Definition ad_test_check (x : list T) : option aderr := adtest_check (isort_by ad_le x).

End Dscore.

(* ================================================================== *)
(* real-number closed forms (transcendental: over R only)              *)

Section ADReal.
Open Scope R_scope.

Fixpoint rsumR (l : list R) : R := match l with [] => 0 | x :: r => x + rsumR r end.

(* z = z-(i+i+1)*log(x[i]*(1.-x[n-1-i])), i = 0..n-1 *)
Definition ad_terms (x : list R) : list R :=
  map (fun p => - (IZR (2 * fst (fst p) + 1)) * ln (snd (fst p) * (1 - snd p)))
      (combine (zenum 0 x) (rev x)).

(* outputs[0] = -n+z/n *)
Definition ad_stat_sorted (x : list R) : R :=
  let n := INR (length x) in - n + rsumR (ad_terms x) / n.

Definition ad_stat (x : list R) : R := ad_stat_sorted (isort_by Rleb x).

Definition adinf (z : R) : R :=
  if Rlt_dec z ADINF_SPLIT then adinf_lo z else adinf_hi z.

Definition AD (n z : R) : R :=
  let x := adinf z in
  if Rlt_dec AD_SPLIT_HI x then x + AD_v_hi n x 0 0
  else
    let c := AD_c n x 0 0 in
    if Rlt_dec x c
    then let v := AD_lo_v1 n x c 0 in let v := AD_lo_v2 n x c v in AD_lo_ret n x c v
    else let v := AD_mid_v1 n x c 0 in let v := AD_mid_v2 n x c v in AD_mid_ret n x c v.

(* pinned code: outputs[1] = 1.-AD(n, stat) *)
Definition ad_pvalue_noclip (n z : R) : R := 1 - AD n z.
(* repaired code: clamped to [0, 1] *)
Definition clamp01 (p : R) : R := if Rlt_dec p 0 then 0 else if Rlt_dec 1 p then 1 else p.
Definition ad_pvalue (n z : R) : R := clamp01 (ad_pvalue_noclip n z).

End ADReal.

(* ================================================================== *)
(* instances                                                           *)
From Coq Require Import PrimFloat.

Definition KF : DsConsts float := {|
  k_cmp_tol := DS_CMP_TOL_F; k_eps_min := DS_EPS_MIN_F;
  k_u_tol_num := DS_U_TOL_NUM_F; k_u_lo_c := DS_U_LO_C_F; k_u_low := DS_U_LOW_F;
  k_u_hi_c := DS_U_HI_C_F; k_u_high := DS_U_HIGH_F;
  k_u_tie := DS_U_TIE_F; k_eps := EPS_metrics_F;
  k_cst_max := PIT_CST_MAX_F; k_num_add := PIT_NUM_ADD_F; k_den_one := PIT_DEN_ONE_F;
  k_pct_div := PIT_PCT_DIV_F;
  k_unif_mul := CVM_UNIF_MUL_F; k_unif_sub := CVM_UNIF_SUB_F; k_unif_div := CVM_UNIF_DIV_F;
  k_cvm_num := CVM_NUM_F; k_cvm_den := CVM_DEN_F;
  k_d_add := DSCORE_ADD_F; k_d_div := DSCORE_DIV_F;
  k_ad_prev0 := AD_PREV0_F; k_ad_lo := AD_RANGE_LO_F; k_ad_hi := AD_RANGE_HI_F |}.

Definition KR : DsConsts R := {|
  k_cmp_tol := DS_CMP_TOL_R; k_eps_min := DS_EPS_MIN_R;
  k_u_tol_num := DS_U_TOL_NUM_R; k_u_lo_c := DS_U_LO_C_R; k_u_low := DS_U_LOW_R;
  k_u_hi_c := DS_U_HI_C_R; k_u_high := DS_U_HIGH_R;
  k_u_tie := DS_U_TIE_R; k_eps := EPS_metrics_R;
  k_cst_max := PIT_CST_MAX_R; k_num_add := PIT_NUM_ADD_R; k_den_one := PIT_DEN_ONE_R;
  k_pct_div := PIT_PCT_DIV_R;
  k_unif_mul := CVM_UNIF_MUL_R; k_unif_sub := CVM_UNIF_SUB_R; k_unif_div := CVM_UNIF_DIV_R;
  k_cvm_num := CVM_NUM_R; k_cvm_den := CVM_DEN_R;
  k_d_add := DSCORE_ADD_R; k_d_div := DSCORE_DIV_R;
  k_ad_prev0 := AD_PREV0_R; k_ad_lo := AD_RANGE_LO_R; k_ad_hi := AD_RANGE_HI_R |}.

(* real numbers with an explicit missing value (NaN) *)
Definition KN : DsConsts (option R) := {|
  k_cmp_tol := Some DS_CMP_TOL_R; k_eps_min := Some DS_EPS_MIN_R;
  k_u_tol_num := Some DS_U_TOL_NUM_R; k_u_lo_c := Some DS_U_LO_C_R; k_u_low := Some DS_U_LOW_R;
  k_u_hi_c := Some DS_U_HI_C_R; k_u_high := Some DS_U_HIGH_R;
  k_u_tie := Some DS_U_TIE_R; k_eps := Some EPS_metrics_R;
  k_cst_max := Some PIT_CST_MAX_R; k_num_add := Some PIT_NUM_ADD_R;
  k_den_one := Some PIT_DEN_ONE_R; k_pct_div := Some PIT_PCT_DIV_R;
  k_unif_mul := Some CVM_UNIF_MUL_R; k_unif_sub := Some CVM_UNIF_SUB_R;
  k_unif_div := Some CVM_UNIF_DIV_R; k_cvm_num := Some CVM_NUM_R; k_cvm_den := Some CVM_DEN_R;
  k_d_add := Some DSCORE_ADD_R; k_d_div := Some DSCORE_DIV_R;
  k_ad_prev0 := Some AD_PREV0_R; k_ad_lo := Some AD_RANGE_LO_R; k_ad_hi := Some AD_RANGE_HI_R |}.

(* ================================================================== *)
(* correspondence-check glue (binary64 instance)                       *)
Definition f_list_same := list_same f_same.
Definition f_list_close (tol : float) := list_same (f_close tol).
Definition bool_list_same := list_same Bool.eqb.

(* tolerance for quantities computed by numpy expressions / reductions (np.sum,
   np.dot, np.mean: summation order is not the sequential one; a harmless
   re-association of a Python expression must not alarm).  The kernel outputs
   (fmat, ranks) are compared exactly. *)
Definition TOL_GLUE : float := 0x1.19799812dea11p-40%float.   (* 1e-12 *)

Inductive dcase :=
(* c_hydrodiy_stat.ensrank(eps, sim, fmat, ranks): return code, upper triangle
   of fmat in loop order, ranks *)
| CEns (eps : float) (sim : list (list float)) (code : Z) (fs ranks : list float)
(* metrics.dscore(obs, sim, eps) *)
| CDscore (eps : float) (obs : list float) (sim : list (list float)) (d : float)
(* metrics.pit(obs, ens, random, cst, censor=censor) with the recorded jitters *)
| CPit (random : bool) (cst censor : float) (obs : list float) (ens : list (list float))
       (dobs : list float) (dens : list (list float))
       (res : option (list float * list bool))
(* metrics.cramer_von_mises_test(data) *)
| CCvm (data : list float) (stat p : float)
(* metrics.anderson_darling_test(data): does it raise? *)
| CAdCheck (data : list float) (raised : bool)
(* metrics.alpha(obs, ens, type="CV") with the recorded jitters *)
| CAlphaCV (obs : list float) (ens : list (list float))
           (dobs : list float) (dens : list (list float)) (stat p : float) (sudo : list bool).

Definition alpha_cst : float := 0x1.3333333333333p-2%float.   (* 0.3: default of pit *)

Definition d_ok (c : dcase) : bool :=
  match c with
  | CEns eps sim code fs ranks =>
      match ensrank F64 KF eps sim with
      | EnsErr k => (k =? code)%Z
      | EnsOk mfs mranks =>
          (code =? 0)%Z && f_list_same (map snd mfs) fs && f_list_same mranks ranks
      end
  | CDscore eps obs sim d => f_close TOL_GLUE (dscore F64 KF eps obs sim) d
  | CPit random cst censor obs ens dobs dens res =>
      match pit F64 KF random cst censor obs ens dobs dens, res with
      | PitErr, None => true
      | PitOk pits sudo, Some (epits, esudo) =>
          f_list_close TOL_GLUE pits epits && bool_list_same sudo esudo
      | _, _ => false
      end
  | CCvm data stat p =>
      let r := cvm_test F64 KF CVM_NSAMPLE CVM_QQ CVM_COLS data in
      f_close TOL_GLUE (fst r) stat && f_close TOL_GLUE (snd r) p
  | CAdCheck data raised =>
      Bool.eqb (match ad_test_check F64 KF data with Some _ => true | None => false end) raised
  | CAlphaCV obs ens dobs dens stat p sudo =>
      match pit F64 KF true alpha_cst 0%float obs ens dobs dens with
      | PitOk pits msudo =>
          let r := cvm_test F64 KF CVM_NSAMPLE CVM_QQ CVM_COLS pits in
          f_close TOL_GLUE (fst r) stat && f_close TOL_GLUE (snd r) p &&
          bool_list_same msudo sudo
      | PitErr => false
      end
  end.
