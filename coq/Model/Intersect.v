(* Model of c_intersect / c_voronoi (src/hydrodiy/gis/c_grid.c) and of the
   Python layer Catchment.intersect / voronoi (src/hydrodiy/gis/grid.py) -
   property C16.  Geometry (cell2coord, getcoord, coord2cell, cell2rowcol) is
   the shared model of Model/Grid.v.  Numeric code is generic over NumOps:
   F64 runs bit-exact against the kernels, RR carries the theorems.
   No proofs in this file. *)
From Coq Require Import ZArith Bool List Lia.
From Hy Require Import Base.Num Gen.Consts Gen.ConstsC16 Model.Grid.
Import ListNotations.
Open Scope Z_scope.

(* ---------------- small array helpers ---------------- *)
(* l[i] = v ; an index outside the list leaves it unchanged (never reached by
   the models below: see the in-range lemmas of Proofs/IntersectProofs.v) *)
Fixpoint upd_nat {A} (l : list A) (n : nat) (v : A) : list A :=
  match l, n with
  | [], _ => []
  | _ :: t, O => v :: t
  | h :: t, S n' => h :: upd_nat t n' v
  end.
Definition upd {A} (l : list A) (i : Z) (v : A) : list A :=
  if i <? 0 then l else upd_nat l (Z.to_nat i) v.

Definition zmin_list (l : list Z) : Z := fold_left Z.min (tl l) (hd 0 l).
Definition zmax_list (l : list Z) : Z := fold_left Z.max (tl l) (hd 0 l).

Section Inter.
Context {T : Type} (N : NumOps T).

(* ---------------- c_intersect ---------------- *)
(* areafactor = (csz_area/csz)*(csz_area/csz) *)
Definition areafactor (csz csz_area : T) : T :=
  nmul N (ndiv N csz_area csz) (ndiv N csz_area csz).

(* the inner loop over the cells stored so far: the first entry with the same
   cell number gets `+= areafactor` (break); when none matches (k==j) a new
   entry (cell, areafactor) is appended *)
Fixpoint acc_add (af : T) (c : Z) (acc : list (Z * T)) : list (Z * T) :=
  match acc with
  | [] => [(c, af)]
  | (k, w) :: rest =>
      if k =? c then (k, nadd N w af) :: rest else (k, w) :: acc_add af c rest
  end.

(* one iteration of the outer loop: locate the point, `continue` when it is
   outside (cell number < 0) *)
Definition intersect_step (locate : T * T -> Z) (af : T)
           (acc : list (Z * T)) (xy : T * T) : list (Z * T) :=
  let c := locate xy in
  if c <? 0 then acc else acc_add af c acc.

Definition intersect_with (locate : T * T -> Z) (af : T) (xys : list (T * T)) : list (Z * T) :=
  fold_left (intersect_step locate af) xys [].

(* the kernel: (idxcells[k], weights[k]) for k < npoints[0] *)
Definition c_intersect (nrows ncols : Z) (xll yll csz csz_area : T) (xys : list (T * T)) : list (Z * T) :=
  intersect_with (coord2cell N nrows ncols xll yll csz) (areafactor csz csz_area) xys.

(* the kernel as it behaved at the pinned commit (coord2cell truncating toward zero) *)
Definition c_intersect_trunc (nrows ncols : Z) (xll yll csz csz_area : T) (xys : list (T * T)) : list (Z * T) :=
  intersect_with (coord2cell_trunc N nrows ncols xll yll csz) (areafactor csz csz_area) xys.

(* ---------------- Catchment.intersect (Python) ---------------- *)
(* np.min over a float column (no NaN among the centres of valid cells) *)
Definition fmin_list (l : list T) : T :=
  fold_left (fun m x => if nltb N x m then x else m) (tl l) (hd (n0 N) l).

(* weights_array[(rows-row_start), (cols-col_start)] = weights : element-wise
   assignment in order (a later assignment to the same slot would win);
   the array is stored row-major as a flat list of anrows*ancols values *)
Definition scatter (ancols : Z) (pos : list (Z * Z)) (ws : list T) (init : list T) : list T :=
  fold_left (fun m pw => upd m (fst (fst pw) * ancols + snd (fst pw)) (snd pw)) (combine pos ws) init.

Record ires := mkIres {
  ir_idx : list Z;            (* idxcells *)
  ir_w : list T;              (* weights *)
  ir_row_start : Z; ir_row_end : Z; ir_col_start : Z; ir_col_end : Z;   (* parentgrid_* *)
  ir_xll : T; ir_yll : T;     (* lower-left corner of area_grid *)
  ir_nrows : Z; ir_ncols : Z; (* shape of area_grid *)
  ir_data : list T            (* area_grid.data, row-major *)
}.

(* the part of Catchment.intersect that follows the kernel call: lower-left
   corner, parent rows/columns, weight grid (coarse grid: nrows ncols xll yll csz) *)
Definition ires_of_acc (nrows ncols : Z) (xll yll csz : T) (acc : list (Z * T)) : ires :=
  let idx := map fst acc in
  let w := map snd acc in
  let coords := map (cell2coord N nrows ncols xll yll csz) idx in
  let half := ndiv N csz (nadd N (n1 N) (n1 N)) in   (* grid.cellsize/2 *)
  let axll := nsub N (fmin_list (map fst coords)) half in
  let ayll := nsub N (fmin_list (map snd coords)) half in
  let rc := map (cell2rowcol nrows ncols) idx in
  let row_start := zmin_list (map fst rc) in
  let row_end := zmax_list (map fst rc) in
  let col_start := zmin_list (map snd rc) in
  let col_end := zmax_list (map snd rc) in
  let anrows := row_end - row_start + 1 in
  let ancols := col_end - col_start + 1 in
  let pos := map (fun p => (fst p - row_start, snd p - col_start)) rc in
  let data := scatter ancols pos w (repeat (n0 N) (Z.to_nat (anrows * ancols))) in
  mkIres idx w row_start row_end col_start col_end axll ayll anrows ancols data.

(* the points handed to the kernel: centres of the (filled) area cells on the
   fine (flow direction) grid nr_a nc_a xll_a yll_a csz_a *)
Definition area_xy (nr_a nc_a : Z) (xll_a yll_a csz_a : T)
           (filled : bool) (cells cells_filled : list Z) : list (T * T) :=
  map (cell2coord N nr_a nc_a xll_a yll_a csz_a) (if filled then cells_filled else cells).

(* None = ValueError (np.min of an empty array: no cell centre falls inside
   the coarse grid). *)
Definition intersect_py (nr_a nc_a : Z) (xll_a yll_a csz_a : T)
           (filled : bool) (cells cells_filled : list Z)
           (nrows ncols : Z) (xll yll csz : T) : option ires :=
  let acc := c_intersect nrows ncols xll yll csz csz_a
               (area_xy nr_a nc_a xll_a yll_a csz_a filled cells cells_filled) in
  match acc with
  | [] => None
  | _ :: _ => Some (ires_of_acc nrows ncols xll yll csz acc)
  end.

(* ---------------- c_voronoi ---------------- *)
Definition dist (xy p : T * T) : T :=
  let dx := nsub N (fst xy) (fst p) in
  let dy := nsub N (snd xy) (snd p) in
  nsqrt N (nadd N (nmul N dx dx) (nmul N dy dy)).

(* the search loop: strict `dist<distmin`, so the first of several equally
   close points keeps the cell; (j, distmin, jmin) is the loop state *)
Fixpoint nearest_from (xy : T * T) (pts : list (T * T)) (j : Z) (distmin : T) (jmin : Z) : Z :=
  match pts with
  | [] => jmin
  | p :: rest =>
      let d := dist xy p in
      if nltb N d distmin then nearest_from xy rest (j + 1) d j
      else nearest_from xy rest (j + 1) distmin jmin
  end.

Definition nearest (distmax : T) (xy : T * T) (pts : list (T * T)) : Z :=
  nearest_from xy pts 0 distmax 0.

(* weights[jmin] += 1 *)
Definition incr (w : list T) (j : Z) : list T := upd w j (nadd N (zn w j (n0 N)) (n1 N)).

Definition voronoi_counts (distmax : T) (nrows ncols : Z) (xll yll csz : T)
           (cells : list Z) (pts : list (T * T)) : list T :=
  fold_left (fun w c => incr w (nearest distmax (getcoord N nrows ncols xll yll csz c) pts))
            cells (repeat (n0 N) (List.length pts)).

(* weights[j] /= (double)ncells *)
Definition voronoi (distmax : T) (nrows ncols : Z) (xll yll csz : T)
           (cells : list Z) (pts : list (T * T)) : list T :=
  map (fun w => ndiv N w (nofZ N (Z.of_nat (List.length cells))))
      (voronoi_counts distmax nrows ncols xll yll csz cells pts).

End Inter.

(* ---------------- correspondence glue (binary64) ---------------- *)
From Coq Require Import PrimFloat.

Definition fl_eqb := list_same f_same.
Definition ff_tol : float := 0x1p-40%float.   (* 9.1e-13, for the corner of area_grid only *)

Inductive icase :=
(* c_hydrodiy_gis.intersect called directly on arbitrary points *)
| IKern (nrows ncols : Z) (xll yll csz csz_area : float) (xys : list (float * float))
        (eidx : list Z) (ew : list float)
(* Catchment.intersect(grid, filled): None = ValueError *)
| IInter (nr_a nc_a : Z) (xll_a yll_a csz_a : float) (filled : bool) (cells cellsf : list Z)
         (nrows ncols : Z) (xll yll csz : float)
         (expect : option (list Z * list float * (Z * Z * Z * Z) * (float * float) * (Z * Z) * list float))
(* hydrodiy.gis.grid.voronoi *)
| IVor (nrows ncols : Z) (xll yll csz : float) (cells : list Z) (pts : list (float * float))
       (expect : list float).

Definition i_ok (c : icase) : bool :=
  match c with
  | IKern nr nc xll yll csz csza xys eidx ew =>
      let acc := c_intersect F64 nr nc xll yll csz csza xys in
      zlist_eqb (map fst acc) eidx && fl_eqb (map snd acc) ew
  | IInter nra nca xlla ylla csza filled cells cellsf nr nc xll yll csz e =>
      match intersect_py F64 nra nca xlla ylla csza filled cells cellsf nr nc xll yll csz, e with
      | None, None => true
      (* an implementation returning an empty result instead of raising is accepted too *)
      | None, Some (eidx, ew, _, _, _, _) =>
          match eidx, ew with [], [] => true | _, _ => false end
      | Some r, Some (eidx, ew, (r0, r1, c0, c1), (ex, ey), (enr, enc), edata) =>
          zlist_eqb (ir_idx r) eidx && fl_eqb (ir_w r) ew &&
          (ir_row_start r =? r0) && (ir_row_end r =? r1) &&
          (ir_col_start r =? c0) && (ir_col_end r =? c1) &&
          f_close ff_tol (ir_xll r) ex && f_close ff_tol (ir_yll r) ey &&
          (ir_nrows r =? enr) && (ir_ncols r =? enc) &&
          fl_eqb (ir_data r) edata
      | Some _, None => false
      end
  | IVor nr nc xll yll csz cells pts e =>
      fl_eqb (voronoi F64 VORONOI_DISTMAX_F nr nc xll yll csz cells pts) e
  end.
