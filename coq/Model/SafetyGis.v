(* C05 - index-level models of the gis kernels (c_grid.c, c_catchment.c,
   c_points_inside_polygon.c) in the error monad of Model/Safety.v.

   Integer buffers are [list Z] holding their real content (the correspondence
   check starts the output buffers from the same sentinel as the C driver and
   compares the final content); float buffers whose values never reach an index
   are lists of "written" marks or plain lengths.  [fx = true] is the repaired
   code, [fx = false] the code as pinned.  No proofs in this file. *)
From Coq Require Import ZArith Bool List String.
From Hy Require Import Base.Num Gen.ConstsC05 Model.Safety.
Import ListNotations.
Open Scope Z_scope.

(* getnxy: nxy[0] = idxcell % ncols; nxy[1] = (idxcell - nxy[0]) / ncols *)
Definition getnxy (ncols idx : Z) : res (Z * Z) :=
  let? nx := zmod idx ncols in
  let? ny := zdiv (idx - nx) ncols in
  Ok (nx, ny).

(* ================================================================== *)
(* c_cell2rowcol(nrows, ncols, nval, idxcell, rowcols)                  *)

Definition cell2rowcol (nrows ncols nval : Z) (idxcell : list Z) (rowcols : list Z)
  : step (list Z) :=
  finish 0 (forZ 0 nval (fun i rc =>
    let! icell := rd "idxcell" 0 idxcell i in
    let! ntot := chk64 (nrows * ncols) in
    if (icell <? 0) || (ntot <=? icell) then
      let! rc := wr "rowcols" rc (2 * i) (-1) in
      let! rc := wr "rowcols" rc (2 * i + 1) (-1) in Next rc
    else
      let! (nx, ny) := getnxy ncols icell in
      let! rc := wr "rowcols" rc (2 * i + 1) nx in
      let! rc := wr "rowcols" rc (2 * i) ny in Next rc) rowcols).

(* c_cell2coord(nrows, ncols, xll, yll, csz, nval, idxcell, xycoords): the coordinates are
   not modelled, the accesses are *)
Definition cell2coord (nrows ncols nval : Z) (idxcell : list Z) (xy : list bool)
  : step (list bool) :=
  finish 0 (forZ 0 nval (fun i xy =>
    let! icell := rd "idxcell" 0 idxcell i in
    let! ntot := chk64 (nrows * ncols) in
    if (icell <? 0) || (ntot <=? icell) then
      let! xy := mark "xycoords" xy (2 * i) in
      let! xy := mark "xycoords" xy (2 * i + 1) in Next xy
    else
      let! _ := getnxy ncols icell in
      let! xy := mark "xycoords" xy (2 * i) in
      let! xy := mark "xycoords" xy (2 * i + 1) in Next xy) xy).

(* ================================================================== *)
(* c_neighbours(nrows, ncols, idxcell, neighbours[9])                   *)

Definition nb_body (nrows ncols nx0 ny0 : Z) (nb : list Z) : step (list Z) :=
  forZ (-1) 2 (fun iy nb =>
    forZ (-1) 2 (fun ix nb =>
      let k := 1 + ix + (1 + iy) * 3 in
      if (ix =? 0) && (iy =? 0) then
        let! nb := wr "neighbours" nb k (-1) in Next nb
      else
        let nx := nx0 + ix in
        let ny := ny0 + iy in
        if (nx <? 0) || (ncols - 1 <? nx) || (ny <? 0) || (nrows - 1 <? ny) then
          let! nb := wr "neighbours" nb k (-1) in Next nb
        else
          let! c := chk64 (ny * ncols + nx) in
          let! nb := wr "neighbours" nb k c in Next nb) nb) nb.

Definition neighbours (nrows ncols idx : Z) (nb : list Z) : step (list Z) :=
  let! ntot := chk64 (nrows * ncols) in
  if (idx <? 0) || (ntot <=? idx) then Ret 1 nb
  else
    let! (nx0, ny0) := getnxy ncols idx in
    finish 0 (nb_body nrows ncols nx0 ny0 nb).

(* a kernel calling another one: only its return code and final buffer matter *)
Definition call {A S} (m : step A) (k : Z -> A -> step S) : step S :=
  match m with
  | Ret c a => k c a
  | Next a | Brk a => k 0 a
  | Fail e => Fail e
  end.

(* an inner loop on its own state A inside a kernel on state S: a `return` inside the
   loop returns from the kernel with the outer state [f a] *)
Definition sub {A S} (m : step A) (f : A -> S) (k : A -> step S) : step S :=
  match m with
  | Next a | Brk a => k a
  | Ret c a => Ret c (f a)
  | Fail e => Fail e
  end.

(* the local array `long long neighbours[9]` of c_upstream / c_downstream *)
Definition nb_local : list Z := repeat (-1) (Z.to_nat NEIGHBOURS_SIZE).

(* ================================================================== *)
(* c_upstream(nrows, ncols, flowdircode, flowdir, nval, idxdown, idxup) *)

Record upst := mkUp { up_k : Z; up_out : list Z }.

Definition upstream (nrows ncols : Z) (code flowdir : list Z) (nval : Z) (idxdown : list Z)
    (idxup : list Z) : step (list Z) :=
  finish 0 (forZ 0 nval (fun i out =>
    let! idxcell := rd "idxdown" 0 idxdown i in
    let! ntot := chk64 (nrows * ncols) in
    if (idxcell <? 0) || (ntot <=? idxcell) then Ret 1 out
    else
      call (neighbours nrows ncols idxcell nb_local) (fun _ nb =>
        sub (forZ 0 9 (fun j s =>
                   let! idxn := rd "neighbours" 0 nb j in
                   if idxn =? -1 then Next s
                   else
                     let! fd := rd "flowdir" 0 flowdir idxn in
                     if fd =? 0 then Next s
                     else
                       let! cd := rd "flowdircode" 0 code (8 - j) in
                       if fd =? cd then
                         let! o := wr "idxup" (up_out s) (UPSTREAM_STRIDE * i + up_k s) idxn in
                         Next (mkUp (up_k s + 1) o)
                       else Next s) (mkUp 0 out)) up_out (fun s =>
        sub (forZ (up_k s) 9 (fun j s =>
                   let! o := wr "idxup" (up_out s) (UPSTREAM_STRIDE * i + j) (-1) in
                   Next (mkUp (up_k s) o)) s) up_out (fun s =>
        Next (up_out s))))) idxup).

(* ================================================================== *)
(* c_downstream(nrows, ncols, flowdircode, flowdir, nval, idxup, idxdown) *)

Definition downstream (nrows ncols : Z) (code flowdir : list Z) (nval : Z) (idxup : list Z)
    (idxdown : list Z) : step (list Z) :=
  finish 0 (forZ 0 nval (fun i out =>
    let! idxcell := rd "idxup" 0 idxup i in
    let! ntot := chk64 (nrows * ncols) in
    if (idxcell <? 0) || (ntot <=? idxcell) then Ret 1 out
    else
      call (neighbours nrows ncols idxcell nb_local) (fun _ nb =>
        let! fd := rd "flowdir" 0 flowdir idxcell in
        let! out := wr "idxdown" out i (-1) in
        if fd =? 0 then
          let! out := wr "idxdown" out i (-2) in Next out
        else
          forZ 0 9 (fun j out =>
            let! cd := rd "flowdircode" 0 code j in
            if fd =? cd then
              let! v := rd "neighbours" 0 nb j in
              let! out := wr "idxdown" out i v in Next out
            else Next out) out)) idxdown).

(* downstream of ONE cell through local one-element arrays idxup[1], idxdown[1]
   (c_accumulate, c_slope, c_delineate_river, flow path lengths): answers
   (return code, idxdown[0]); [d0] is the previous content of idxdown[0] *)
Definition down1 (nrows ncols : Z) (code flowdir : list Z) (c d0 : Z) : step (Z * Z) :=
  call (downstream nrows ncols code flowdir 1 [c] [d0]) (fun rc out =>
    Next (rc, nth 0 out 0)).

(* ================================================================== *)
(* c_accumulate(nrows, ncols, nprint, max_accumulated_cells, nodata, flowdircode, flowdir,
                to_accumulate, accumulation)   -- values not modelled (C11) *)

Record acst := mkAc { ac_up : Z; ac_down : Z }.

Definition accumulate (fx : bool) (nrows ncols nprint maxacc : Z) (code flowdir : list Z)
    (ntoacc nacc : Z) : step unit :=
  if maxacc <? 1 then Ret 1 tt
  else if nrows <? 1 then Ret 1 tt
  else
  let! ntot := chk64 (nrows * ncols) in
  finish 0 (forZ 0 ntot (fun i u =>
    let! _ := (if fx && (nprint =? 0) then Ok 0 else zmod i nprint) in
    sub (for_loop (Z.to_nat (maxacc + 1)) 0 (fun _ s =>
               call (down1 nrows ncols code flowdir (ac_up s) (ac_down s)) (fun _ r =>
                 let '(rc, d) := r in
                 if 0 <? rc then Ret 1 s
                 else if d <? 0 then
                   let! _ := touch "accumulation" nacc (ac_up s) in Brk s
                 else
                   let! _ := touch "to_accumulate" ntoacc i in
                   let! _ := touch "accumulation" nacc d in
                   Next (mkAc d d))) (mkAc i 0)) (fun _ => tt) (fun _ =>
    Next u)) tt).

(* c_slope(nrows, ncols, nprint, cellsize, flowdircode, flowdir, altitude, slopeval) *)
Definition slope (fx : bool) (nrows ncols nprint : Z) (code flowdir : list Z)
    (nalt : Z) (slopeval : list bool) : step (list bool) :=
  if nrows <? 1 then Ret 1 slopeval
  else
  let! ntot := chk64 (nrows * ncols) in
  finish 0 (forZ 0 ntot (fun i sv =>
    let! _ := (if fx && (nprint =? 0) then Ok 0 else zmod i nprint) in
    call (down1 nrows ncols code flowdir i 0) (fun _ r =>
      let '(rc, d) := r in
      if 0 <? rc then Ret 1 sv
      else if 0 <=? d then
        let! _ := touch "altitude" nalt i in
        let! _ := touch "altitude" nalt d in
        let! _ := rd "flowdir" 0 flowdir i in
        let! _ := rd "flowdircode" 0 code 0 in
        let! _ := rd "flowdircode" 0 code 2 in
        let! _ := rd "flowdircode" 0 code 6 in
        let! _ := rd "flowdircode" 0 code 8 in
        let! sv := mark "slopeval" sv i in Next sv
      else Next sv)) slopeval).

(* ================================================================== *)
(* c_delineate_area(nrows, ncols, flowdircode, flowdir, idxoutlet, ninlets, idxinlets,
                    nval, idxcells_area, buffer1, buffer2) *)

Record dast := mkDa {
  da_i : Z; da_nb1 : Z; da_nb2 : Z; da_layer : Z;
  da_area : list Z; da_b1 : list Z; da_b2 : list Z
}.

Definition da_isinlet (ninlets : Z) (idxinlets : list Z) (idx : Z) : step bool :=
  (* for(m=0; m<ninlets; m++) if(idxinlets[m] == idx) break;  then m == ninlets ? *)
  do! found := forZ 0 ninlets (fun m found =>
      let! v := rd "idxinlets" 0 idxinlets m in
      if v =? idx then Brk true else Next found) false in
  Next found.

Definition da_layer_step (nrows ncols : Z) (code flowdir : list Z) (idxoutlet ninlets : Z)
    (idxinlets : list Z) (nval : Z) (s : dast) : step dast :=
  (* swap buffers *)
  do! s := forZ 0 (da_nb2 s) (fun l s =>
             let! v := rd "buffer2" 0 (da_b2 s) l in
             let! b1 := wr "buffer1" (da_b1 s) l v in
             Next (mkDa (da_i s) (da_nb1 s) (da_nb2 s) (da_layer s) (da_area s) b1 (da_b2 s))) s in
  let s := mkDa (da_i s) (da_nb2 s) 0 (da_layer s) (da_area s) (da_b1 s) (da_b2 s) in
  do! s := forZ 0 (da_nb1 s) (fun l s =>
      let! cell := rd "buffer1" 0 (da_b1 s) l in
      call (upstream nrows ncols code flowdir 1 [cell] (repeat (-1) (Z.to_nat IDXUP_SIZE))) (fun _ idxup =>
        forZ 0 9 (fun k s =>
          let! idx := rd "idxup" 0 idxup k in
          if 0 <=? idx then
            call (da_isinlet ninlets idxinlets idx) (fun _ isin =>
              if isin then Next s
              else if da_i s =? nval - 1 then Ret 1 s
              else
                let! a := wr "idxcells_area" (da_area s) (da_i s) idx in
                let! b2 := wr "buffer2" (da_b2 s) (da_nb2 s) idx in
                let s' := mkDa (da_i s) (da_nb1 s) (da_nb2 s) (da_layer s) a (da_b1 s) b2 in
                if da_nb2 s =? nval - 1 then Ret 1 s'
                else Next (mkDa (da_i s + 1) (da_nb1 s) (da_nb2 s + 1) (da_layer s) a (da_b1 s) b2))
          else Next s) s)) s in
  if da_nb2 s =? 0 then Ret 0 s
  else
    do! s := (if da_layer s =? 0 then
                if da_i s =? nval - 1 then Ret 1 s
                else
                  let! a := wr "idxcells_area" (da_area s) (da_i s) idxoutlet in
                  Next (mkDa (da_i s + 1) (da_nb1 s) (da_nb2 s) (da_layer s) a (da_b1 s) (da_b2 s))
              else Next s) in
    Next (mkDa (da_i s) (da_nb1 s) (da_nb2 s) (da_layer s + 1) (da_area s) (da_b1 s) (da_b2 s)).

Definition delineate_area (nrows ncols : Z) (code flowdir : list Z) (idxoutlet ninlets : Z)
    (idxinlets : list Z) (nval : Z) (area b1 b2 : list Z) : step dast :=
  let s0 := mkDa 0 0 0 0 area b1 b2 in
  if nval <? 1 then Ret 1 s0
  else
  let! ntot := chk64 (nrows * ncols) in
  if (idxoutlet <? 0) || (ntot - 1 <? idxoutlet) then Ret 1 s0
  else
  do! _ := forZ 0 ninlets (fun m (u : dast) =>
             let! v := rd "idxinlets" 0 idxinlets m in
             if (v <? 0) || (ntot - 1 <? v) then Ret 1 u else Next u) s0 in
  let! b2' := wr "buffer2" b2 0 idxoutlet in
  (* while(nlayer >= 0): every layer but the last stores at least one cell, and the walk
     stops when i reaches nval-1: nval+1 layers are enough *)
  finish 0 (while_loop (Z.to_nat nval + 2)
              (da_layer_step nrows ncols code flowdir idxoutlet ninlets idxinlets nval)
              (mkDa 0 0 1 0 area b1 b2')).

(* ================================================================== *)
(* c_delineate_boundary(nrows, ncols, nval, idxcells_area, buffer, catchment_area_mask,
                        idxcells_boundary) *)

Fixpoint zinsert (x : Z) (l : list Z) : list Z :=
  match l with
  | [] => [x]
  | y :: t => if x <=? y then x :: l else y :: zinsert x t
  end.
Fixpoint zsort (l : list Z) : list Z :=
  match l with [] => [] | x :: t => zinsert x (zsort t) end.

Section Boundary.
Context {T : Type} (N : NumOps T).

(* (long long)((double)nbuffer * percmax), percmax = 0.8 *)
Definition percmax : T := ndiv N (nofZ N PERCMAX_NUM) (nofZ N PERCMAX_DEN).
Definition bd_threshold (nbuffer : Z) : res Z :=
  cast64 (ntrunc N (nmul N (nofZ N nbuffer) percmax)).

Record bdst := mkBd {
  bd_buf : list Z; bd_out : list Z;
  bd_cell : Z; bd_next : Z; bd_knext : Z; bd_ibnd : Z
}.

Record bd1st := mkB1 { b1_n : Z; b1_buf : list Z }.

Definition bd_step1 (ncols ngrid nval : Z) (area mask : list Z) (buffer : list Z) : step bd1st :=
  let shift := [-1; 1; - ncols; ncols] in
  let! a0 := rd "idxcells_area" 0 area 0 in
  let! b := wr "buffer" buffer 0 a0 in
  forZ 1 nval (fun i s =>
    let! idxcell := rd "idxcells_area" 0 area i in
    let! m := rd "catchment_area_mask" 0 mask idxcell in
    if negb (m =? 1) then Ret 1 s
    else
      sub (forZ 0 4 (fun k (isout : Z) =>
          let! sh := rd "shift" 0 shift k in
          let! idxcelln := chk64 (idxcell + sh) in
          if (0 <=? idxcelln) && (idxcelln <? ngrid) then
            let! mn := rd "catchment_area_mask" 0 mask idxcelln in
            Next (isout * (if mn =? 1 then 1 else 0))
          else Next 0) 1) (fun _ => s) (fun io =>
          if io =? 0 then
            if nval <? b1_n s then Ret 1 s
            else
              let! b := wr "buffer" (b1_buf s) (b1_n s) idxcell in
              Next (mkB1 (b1_n s + 1) b)
          else Next s)) (mkB1 1 b).

Record bdin := mkBi { bi_next : Z; bi_knext : Z; bi_dmin : Z }.

Definition bd_step2 (fx : bool) (ncols distmax nval nbuffer : Z) (buffer out : list Z)
  : step bdst :=
  let! start := rd "buffer" 0 buffer 0 in
  let! (sx, sy) := getnxy ncols start in
  let! buffer := wr "buffer" buffer 0 (-1) in
  do! s := forZ 0 nbuffer (fun ibnd s =>
      let idxcell := bd_cell s in
      let! (cx, cy) := getnxy ncols idxcell in
      let! o := wr "idxcells_boundary" (bd_out s) ibnd idxcell in
      let! dmin0 := chk64 (distmax * distmax) in
      sub (forZ 0 nbuffer (fun k r =>
          let! buf := rd "buffer" 0 (bd_buf s) k in
          if buf <? 0 then Next r
          else
            let! (bx, by_) := getnxy ncols buf in
            let dx := cx - bx in
            let dy := cy - by_ in
            let! dist := chk64 (dx * dx + dy * dy) in
            let r' := if (dist <? bi_dmin r) && (0 <? dist) then mkBi buf k dist else r in
            if dist =? 1 then Brk r' else Next r') (mkBi (bd_next s) (bd_knext s) dmin0))
        (fun _ => s) (fun r =>
          let! thr := bd_threshold nbuffer in
          let stop :=
            if thr <? ibnd then
              let dx := cx - sx in let dy := cy - sy in
              (dx * dx + dy * dy <? bi_dmin r)
            else false in
          if stop then Brk (mkBd (bd_buf s) o idxcell (bi_next r) (bi_knext r) ibnd)
          else
            let! b := (if fx && negb (0 <=? bi_knext r) then Ok (bd_buf s)
                       else wr "buffer" (bd_buf s) (bi_knext r) (-1)) in
            Next (mkBd b o (bi_next r) (bi_next r) (bi_knext r) (ibnd + 1))))
      (mkBd buffer out start (-1) (-1) 0) in
  let ibnd := if nval - 1 <? bd_ibnd s then nval - 1 else bd_ibnd s in
  let! o := wr "idxcells_boundary" (bd_out s) ibnd start in
  Next (mkBd (bd_buf s) o (bd_cell s) (bd_next s) (bd_knext s) ibnd).

(* answers (sorted idxcells_area, final state) *)
Definition delineate_boundary (fx : bool) (nrows ncols nval : Z) (area buffer mask out : list Z)
  : step (list Z * bdst) :=
  let s0 := mkBd buffer out 0 (-1) (-1) 0 in
  if nval <? 1 then Ret 1 (area, s0)
  else if fx && ((nrows <? 1) || (ncols <? 1)) then Ret 1 (area, s0)
  else
  let! ngrid := chk64 (nrows * ncols) in
  let distmax := if ncols <? nrows then nrows else ncols in
  let area := zsort area in
  let! a0 := rd "idxcells_area" 0 area 0 in
  let! alast := rd "idxcells_area" 0 area (nval - 1) in
  if fx && ((a0 <? 0) || (ngrid <=? alast)) then Ret 1 (area, s0)
  else
  call (bd_step1 ncols ngrid nval area mask buffer) (fun rc s1 =>
    if negb (rc =? 0) then Ret rc (area, mkBd (b1_buf s1) out 0 (-1) (-1) 0)
    else
      call (bd_step2 fx ncols distmax nval (b1_n s1) (b1_buf s1) out) (fun rc s2 =>
        Ret rc (area, s2))).

End Boundary.

(* ================================================================== *)
(* c_delineate_river(nrows, ncols, xll, yll, csz, flowdircode, flowdir, idxupstream, nval,
                     npoints, idxcells, data[nval x 5]) -- distances not modelled (C06) *)

Record rvst := mkRv { rv_up : Z; rv_np : list Z; rv_cells : list Z; rv_data : list bool }.

Definition delineate_river (nrows ncols : Z) (code flowdir : list Z) (idxupstream nval : Z)
    (npoints idxcells : list Z) (data : list bool) : step rvst :=
  let s0 := mkRv idxupstream npoints idxcells data in
  let! ntot := chk64 (nrows * ncols) in
  if (idxupstream <? 0) || (ntot - 1 <? idxupstream) then Ret 1 s0
  else
  let! np := wr "npoints" npoints 0 0 in
  finish 0 (forZ 0 nval (fun i s =>
    let! cells := wr "idxcells" (rv_cells s) i (rv_up s) in
    let! n := rd "npoints" 0 (rv_np s) 0 in
    let! np := wr "npoints" (rv_np s) 0 (n + 1) in
    call (down1 nrows ncols code flowdir (rv_up s) 0) (fun _ r =>
      let '(_, d) := r in
      let! dt := mark "data" (rv_data s) (RIVER_NCOLS * i) in
      let! dt := mark "data" dt (RIVER_NCOLS * i + 1) in
      let! dt := mark "data" dt (RIVER_NCOLS * i + 2) in
      let! _ := getnxy ncols (rv_up s) in
      let! dt := mark "data" dt (RIVER_NCOLS * i + 3) in
      let! dt := mark "data" dt (RIVER_NCOLS * i + 4) in
      let! _ := getnxy ncols (rv_up s) in
      let! _ := getnxy ncols d in
      let s' := mkRv d np cells dt in
      if d <? 0 then Ret 0 s' else Next s')) (mkRv idxupstream np idxcells data)).

(* c_delineate_flowpathlengths_in_catchment(nrows, ncols, flowdircode, flowdir, nval,
       idxcells_area, idxcell_outlet, flowpathlengths[nval x 3]) *)
Record fpst := mkFp { fp_up : Z; fp_down : Z; fp_ipath : Z }.

Definition flowpathlengths (nrows ncols : Z) (code flowdir : list Z) (nval : Z) (area : list Z)
    (outlet : Z) (fpl : list bool) : step (list bool) :=
  finish 0 (forZ 0 nval (fun i fpl =>
    let! a := rd "idxcells_area" 0 area i in
    (* while(ipath < nval) *)
    sub (for_loop (Z.to_nat nval) 0 (fun _ s =>
        call (down1 nrows ncols code flowdir (fp_up s) (fp_down s)) (fun _ r =>
          let '(rc, d) := r in
          let s := mkFp (fp_up s) d (fp_ipath s) in
          if (d <? 0) || (0 <? rc) then Brk s
          else if d =? outlet then Brk s
          else
            let! _ := getnxy ncols d in
            let! _ := getnxy ncols (fp_up s) in
            Next (mkFp d d (fp_ipath s + 1)))) (mkFp a (-1) 0)) (fun _ => fpl) (fun s =>
    let! _ := (if (fp_ipath s + 1 <? nval) && (0 <=? fp_down s) then
                 let? _ := getnxy ncols (fp_down s) in
                 let? _ := getnxy ncols (fp_up s) in Ok tt
               else Ok tt) in
    let! _ := rd "idxcells_area" 0 area i in
    let! fpl := mark "flowpathlengths" fpl (3 * i) in
    let! fpl := mark "flowpathlengths" fpl (3 * i + 1) in
    let! fpl := mark "flowpathlengths" fpl (3 * i + 2) in
    Next fpl)) fpl).

(* ================================================================== *)
(* kernels with floating-point control: coord2cell, intersect, voronoi, inside *)

Section FloatGis.
Context {T : Type} (N : NumOps T).

(* floor() as a double: values that do not fit an integer are their own floor *)
Definition nfloorT (x : T) : T :=
  match nfloor N x with Some z => nofZ N z | None => x end.

(* one point: answers idxcell *)
Definition c2c_point (fx : bool) (nrows ncols : Z) (xll yll csz x y : T) : res Z :=
  let fxx := nfloorT (ndiv N (nsub N x xll) csz) in
  let fyy := nfloorT (ndiv N (nsub N y yll) csz) in
  if fx && negb (nleb N (n0 N) fxx && nltb N fxx (nofZ N ncols) &&
                 nleb N (n0 N) fyy && nltb N fyy (nofZ N nrows)) then Ok (-1)
  else
    let? nx := cast64 (ntrunc N fxx) in
    let? fyz := cast64 (ntrunc N fyy) in
    let? ny := chk64 (nrows - 1 - fyz) in
    if (nx <? 0) || (ncols <=? nx) || (ny <? 0) || (nrows <=? ny) then Ok (-1)
    else chk64 (ny * ncols + nx).

(* c_coord2cell(nrows, ncols, xll, yll, csz, nval, xycoords, idxcell) *)
Definition coord2cell (fx : bool) (nrows ncols : Z) (xll yll csz : T) (nval : Z) (xy : list T)
    (idxcell : list Z) : step (list Z) :=
  finish 0 (forZ 0 nval (fun i out =>
    let! x := rd "xycoords" (n0 N) xy (2 * i) in
    let! y := rd "xycoords" (n0 N) xy (2 * i + 1) in
    let! c := c2c_point fx nrows ncols xll yll csz x y in
    let! out := wr "idxcell" out i c in Next out) idxcell).

(* c_intersect(nrows, ncols, xll, yll, csz, csz_area, nval, xy_area, ncells, npoints,
               idxcells, weights): weights as marks *)
Record isst := mkIs { is_j : Z; is_cells : list Z; is_w : list bool }.

Definition intersect (fx : bool) (nrows ncols : Z) (xll yll csz : T) (nval : Z) (xy : list T)
    (npoints idxcells : list Z) (weights : list bool) : step (list Z * isst) :=
  call (forZ 0 nval (fun i s =>
    let! x := rd "xy_area" (n0 N) xy (2 * i) in
    let! y := rd "xy_area" (n0 N) xy (2 * i + 1) in
    let! c := c2c_point fx nrows ncols xll yll csz x y in
    if c <? 0 then Next s
    else
      sub (forZ 0 (is_j s) (fun k (found : bool * isst) =>
          let s := snd found in
          let! v := rd "idxcells" 0 (is_cells s) k in
          if v =? c then
            let! w := mark "weights" (is_w s) k in Brk (true, mkIs (is_j s) (is_cells s) w)
          else Next found) (false, s)) snd (fun found =>
          let '(fnd, s) := found in
          if fnd then Next s
          else
            let! cells := wr "idxcells" (is_cells s) (is_j s) c in
            let! w := mark "weights" (is_w s) (is_j s) in
            Next (mkIs (is_j s + 1) cells w))) (mkIs 0 idxcells weights)) (fun rc s =>
    let! np := wr "npoints" npoints 0 (is_j s) in
    Ret rc (np, s)).

(* c_voronoi(nrows, ncols, xll, yll, csz, ncells, idxcells_area, npoints, xypoints, weights):
   weights are modelled (they decide nothing, but are cheap and exact) *)
Definition half : T := ndiv N (n1 N) (nofZ N 2).
Definition big : T := nofZ N (10 ^ VORONOI_DISTMIN_EXP).

Record vrst := mkVr { vr_dmin : T; vr_jmin : Z }.

Definition voronoi (fx : bool) (nrows ncols : Z) (xll yll csz : T) (ncells : Z) (area : list Z)
    (npoints : Z) (xyp : list T) (weights : list T) : step (list T) :=
  if fx && (npoints <? 1) then Ret 1 weights
  else if fx && ((nrows <? 1) || (ncols <? 1)) then Ret 1 weights
  else
  let! ntot := chk64 (nrows * ncols) in
  do! w := forZ 0 npoints (fun j w => let! w := wr "weights" w j (n0 N) in Next w) weights in
  do! w := forZ 0 ncells (fun i w =>
      let! idxcell := rd "idxcells_area" 0 area i in
      if fx && ((idxcell <? 0) || (ntot <=? idxcell)) then Ret 1 w
      else
      let! _ := (if fx then Ok (n0 N) else rd "xypoints" (n0 N) xyp (2 * i)) in
      let! _ := (if fx then Ok (n0 N) else rd "xypoints" (n0 N) xyp (2 * i + 1)) in
      let! (nx, ny) := getnxy ncols idxcell in
      let! rowb := chk64 (nrows - 1 - ny) in
      let x := nadd N xll (nmul N csz (nadd N (nofZ N nx) half)) in
      let y := nadd N yll (nmul N csz (nadd N (nofZ N rowb) half)) in
      sub (forZ 0 npoints (fun j s =>
          let! px := rd "xypoints" (n0 N) xyp (2 * j) in
          let! py := rd "xypoints" (n0 N) xyp (2 * j + 1) in
          let dx := nsub N x px in
          let dy := nsub N y py in
          let dist := nsqrt N (nadd N (nmul N dx dx) (nmul N dy dy)) in
          if nltb N dist (vr_dmin s) then Next (mkVr dist j) else Next s) (mkVr big 0))
        (fun _ => w) (fun s =>
          let! cur := rd "weights" (n0 N) w (vr_jmin s) in
          let! w := wr "weights" w (vr_jmin s) (nadd N cur (n1 N)) in Next w)) w in
  finish 0 (forZ 0 npoints (fun j w =>
    let! cur := rd "weights" (n0 N) w j in
    let! w := wr "weights" w j (ndiv N cur (nofZ N ncells)) in Next w) w).

(* c_inside(nprint, npoints, points, nvertices, polygon, atol, xlim, ylim, inside):
   the toggling is not modelled (C15); the accesses are.  [inbox i] = point i passes the
   bounding-box test (decided by the harness-independent float comparisons below) *)
Definition inside (nprint npoints : Z) (points : list T) (nvertices : Z) (polygon : list T)
    (xlim ylim : list T) (ins : list bool) : step (list bool) :=
  finish 0 (forZ 0 npoints (fun ipt ins =>
    let! x := rd "points" (n0 N) points (2 * ipt) in
    let! y := rd "points" (n0 N) points (2 * ipt + 1) in
    let! x0 := rd "polygon_xlim" (n0 N) xlim 0 in
    let! x1 := rd "polygon_xlim" (n0 N) xlim 1 in
    let! y0 := rd "polygon_ylim" (n0 N) ylim 0 in
    let! y1 := rd "polygon_ylim" (n0 N) ylim 1 in
    if nltb N x x0 || nltb N x1 x || nltb N y y0 || nltb N y1 y then Next ins
    else
      let! _ := (if 0 <? nprint then zmod ipt nprint else Ok 0) in
      let! _ := rd "polygon" (n0 N) polygon 0 in
      let! _ := rd "polygon" (n0 N) polygon 1 in
      let! ins := mark "inside" ins ipt in
      sub (forZ 1 (nvertices + 1) (fun ivert (u : unit) =>
          let! m := zmod ivert nvertices in
          let! k := mul32 2 m in
          let! _ := rd "polygon" (n0 N) polygon k in
          let! _ := rd "polygon" (n0 N) polygon (k + 1) in Next u) tt) (fun _ => ins) (fun _ =>
      Next ins)) ins).

End FloatGis.
Arguments mkVr {T}. Arguments vr_dmin {T}. Arguments vr_jmin {T}.
