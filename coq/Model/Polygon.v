(* Model of the point-in-polygon code (property C15):
     src/hydrodiy/gis/c_points_inside_polygon.c   (c_inside)
     src/hydrodiy/gis/c_hydrodiy_gis.pyx           (points_inside_polygon: extent)
     src/hydrodiy/gis/gutils.py                    (points_inside_polygon: glue)
     src/hydrodiy/gis/grid.py                      (Grid.cells_inside_polygon)
   Generic over [NumOps]; the order of the floating-point operations and of the
   comparisons is that of the C text.  No proofs here. *)
From Coq Require Import ZArith Bool List.
From Hy Require Import Base.Num Gen.ConstsC15 Model.Grid.
Import ListNotations.

Section Polygon.
Context {T : Type} (N : NumOps T).

(* C99 fmin / fmax: a NaN operand is ignored *)
Definition nfmin (a b : T) : T :=
  if nisnan N a then b else if nisnan N b then a else if nltb N b a then b else a.
Definition nfmax (a b : T) : T :=
  if nisnan N a then b else if nisnan N b then a else if nltb N a b then b else a.

(* body of the loop over the edges, for the edge p1 -> p2:
     if(y > fmin(p1y, p2y)) if(y <= fmax(p1y, p2y)) if(x <= fmax(p1x, p2x)) {
        dist = fabs(p1y-p2y);  xinters = p1x;
        if(dist > atol) xinters += (y-p1y)*(p2x-p1x)/(p2y-p1y);
        dist = fabs(p1x-p2x);
        if(dist < atol || x <= xinters) inside = 1-inside; }                     *)
Definition xinters (atol y : T) (p1 p2 : T * T) : T :=
  if nltb N atol (nabs N (nsub N (snd p1) (snd p2)))
  then nadd N (fst p1)
         (ndiv N (nmul N (nsub N y (snd p1)) (nsub N (fst p2) (fst p1)))
                 (nsub N (snd p2) (snd p1)))
  else fst p1.

Definition edge_toggle (atol x y : T) (e : (T * T) * (T * T)) : bool :=
  let (p1, p2) := e in
  if nltb N (nfmin (snd p1) (snd p2)) y then
    if nleb N y (nfmax (snd p1) (snd p2)) then
      if nleb N x (nfmax (fst p1) (fst p2)) then
        nltb N (nabs N (nsub N (fst p1) (fst p2))) atol || nleb N x (xinters atol y p1 p2)
      else false
    else false
  else false.

(* consecutive pairs of a vertex sequence *)
Fixpoint path {A} (l : list A) : list (A * A) :=
  match l with
  | a :: (b :: _) as r => (a, b) :: path r
  | _ => []
  end.

(* p1 = polygon[0]; for ivert = 1..nvertices: p2 = polygon[ivert % nvertices]:
   the edges v0->v1, ..., v(n-2)->v(n-1), v(n-1)->v0 *)
Definition edges {A} (poly : list A) : list (A * A) :=
  match poly with
  | [] => []
  | v0 :: _ => path (poly ++ [v0])
  end.

(* inside[ipt] = 0, then 1-inside at every toggling edge *)
Definition crossing_parity (atol : T) (poly : list (T * T)) (p : T * T) : bool :=
  fold_left (fun acc e => if edge_toggle atol (fst p) (snd p) e then negb acc else acc)
            (edges poly) false.

(* if(x < xlim[0] || x > xlim[1] || y < ylim[0] || y > ylim[1]) continue; *)
Definition outside_box (xlim ylim : T * T) (p : T * T) : bool :=
  nltb N (fst p) (fst xlim) || nltb N (snd xlim) (fst p) ||
  nltb N (snd p) (fst ylim) || nltb N (snd ylim) (snd p).

(* one iteration of the loop over the points: [old] is what inside[ipt] held
   before the call; a point outside the box is skipped WITHOUT being written *)
Definition c_inside_point (atol : T) (xlim ylim : T * T) (poly : list (T * T))
           (p : T * T) (old : Z) : Z :=
  if outside_box xlim ylim p then old
  else if crossing_parity atol poly p then 1%Z else 0%Z.

Fixpoint c_inside (atol : T) (xlim ylim : T * T) (poly : list (T * T))
         (pts : list (T * T)) (inside : list Z) : list Z :=
  match pts, inside with
  | p :: pts', o :: inside' =>
      c_inside_point atol xlim ylim poly p o :: c_inside atol xlim ylim poly pts' inside'
  | _, _ => []
  end.

(* numpy's min / max of a column: a NaN anywhere gives NaN; None for an empty
   column (numpy raises ValueError) *)
Definition np_min (l : list T) : option T :=
  match l with
  | [] => None
  | a :: r => Some (fold_left (fun acc v => if nisnan N acc then acc else if nisnan N v then v
                                            else if nltb N v acc then v else acc) r a)
  end.
Definition np_max (l : list T) : option T :=
  match l with
  | [] => None
  | a :: r => Some (fold_left (fun acc v => if nisnan N acc then acc else if nisnan N v then v
                                            else if nltb N acc v then v else acc) r a)
  end.

(* the extent computed by the .pyx wrapper *)
Definition extent (poly : list (T * T)) : option ((T * T) * (T * T)) :=
  match np_min (map fst poly), np_max (map fst poly),
        np_min (map snd poly), np_max (map snd poly) with
  | Some x0, Some x1, Some y0, Some y1 => Some ((x0, x1), (y0, y1))
  | _, _, _, _ => None
  end.

(* gutils.points_inside_polygon.  [inside_len]: None when the caller gives no
   `inside` vector (a zero vector is allocated), Some n for a caller-supplied
   int32 vector of length n (whatever it holds is overwritten with zeros;
   a wrong length is rejected).  Result None = ValueError. *)
Definition points_inside_polygon (atol : T) (pts poly : list (T * T))
           (inside_len : option Z) : option (list Z) :=
  let n := List.length pts in
  if match inside_len with Some k => negb (k =? Z.of_nat n)%Z | None => false end
  then None
  else match extent poly with
       | None => None
       | Some (xlim, ylim) => Some (c_inside atol xlim ylim poly pts (repeat 0%Z n))
       end.

(* the answer for one point, as a function of the point *)
Definition pip_point (atol : T) (poly : list (T * T)) (p : T * T) : option Z :=
  match extent poly with
  | None => None
  | Some (xlim, ylim) => Some (c_inside_point atol xlim ylim poly p 0%Z)
  end.

(* ---- Grid.cells_inside_polygon ---- *)
Definition zrange (n : Z) : list Z := map Z.of_nat (seq 0 (Z.to_nat n)).

(* boolean-mask indexing a[mask] *)
Fixpoint mask_select {A} (mask : list Z) (l : list A) : list A :=
  match mask, l with
  | m :: mask', a :: l' =>
      if (m =? 0)%Z then mask_select mask' l' else a :: mask_select mask' l'
  | _, _ => []
  end.

(* [atol_default] is the default tolerance of gutils.points_inside_polygon;
   [atol] the argument of cells_inside_polygon, forwarded or not as the source
   says (Gen/ConstsC15.v).  Rows (x, y, cell). *)
Definition cells_inside_polygon (atol_default : T) (nrows ncols : Z) (xll yll csz : T)
           (poly : list (T * T)) (atol : T) : option (list ((T * T) * Z)) :=
  let ncells := zrange (nrows * ncols) in
  let points := map (cell2coord N nrows ncols xll yll csz) ncells in
  match points_inside_polygon (if CELLS_FORWARDS_ATOL then atol else atol_default)
                              points poly None with
  | None => None
  | Some inside => Some (mask_select inside (combine points ncells))
  end.

End Polygon.

(* ---------------- correspondence glue (binary64) ---------------- *)
From Coq Require Import PrimFloat.

Definition fpt := (float * float)%type.

Inductive pcase :=
(* points_inside_polygon(points, polygon, inside=<vector of length k>|None, atol) *)
| PInside (atol : float) (pts poly : list fpt) (inside_len : option Z)
          (expect : option (list Z))
(* the kernel alone (ctypes): explicit extent and initial content of inside *)
| PKernel (atol : float) (xlim ylim : fpt) (pts poly : list fpt) (init expect : list Z)
(* Grid(nrows, ncols, xll, yll, csz).cells_inside_polygon(polygon, atol) *)
| PCells (nrows ncols : Z) (xll yll csz : float) (poly : list fpt) (atol : float)
         (expect : option (list (fpt * Z))).

Definition zl_same := list_same Z.eqb.
Definition row_same (a b : fpt * Z) : bool :=
  f_same (fst (fst a)) (fst (fst b)) && f_same (snd (fst a)) (snd (fst b)) &&
  (snd a =? snd b)%Z.

Definition p_ok (c : pcase) : bool :=
  match c with
  | PInside atol pts poly il e =>
      match points_inside_polygon F64 atol pts poly il, e with
      | Some l, Some l' => zl_same l l'
      | None, None => true
      | _, _ => false
      end
  | PKernel atol xlim ylim pts poly init e =>
      zl_same (c_inside F64 atol xlim ylim poly pts init) e
  | PCells nr nc xll yll csz poly atol e =>
      match cells_inside_polygon F64 PIP_ATOL_DEFAULT_F nr nc xll yll csz poly atol, e with
      | Some l, Some l' => list_same row_same l l'
      | None, None => true
      | _, _ => false
      end
  end.
