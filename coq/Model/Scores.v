(* Model of the deterministic and categorical scores of
   src/hydrodiy/stat/metrics.py: bias, nse, kge, corr (with __nonulldata and
   __check_ensemble_data), confusion_matrix, binary.

   Numeric part: generic over [NumOps]; the order of floating-point operations
   is that of numpy on this platform:
     - np.sum / np.mean / np.std reduce with numpy's PAIRWISE summation
       (blocks of 8 accumulators up to 128 elements, recursive halving above),
       transcribed below as [np_sum];
     - np.corrcoef is cov/(sd*sd) with the products accumulated by BLAS
       (order unknown): modelled by a left-to-right dot product, compared with
       a tolerance in the correspondence check;
     - scipy.stats.spearmanr is np.corrcoef of the mid-ranks, NaN for a
       constant input or an input containing NaN.
   [trans.forward] is a parameter [fwd : T -> T] (the transforms themselves are
   the subject of C01/C02).  Guards that return np.nan are the distinguished
   output [SNan]; ValueError is [SErr].

   Categorical part: [confusion] over [list Z] (pandas.crosstab = sorted
   distinct labels and pair counts; padding and re-ordering), [binary] from the
   four cells along the code's own path.  The guards of LOR and ORSS are taken
   from the source (Gen/ConstsC04.v).  The variants of the pinned code that the
   property refutes are kept under the names [*_old].

   No proofs in this file. *)
From Coq Require Import ZArith Bool List.
From Hy Require Import Base.Num Gen.Consts Gen.ConstsC04.
Import ListNotations.

Section Scores.
Context {T : Type} (N : NumOps T).
Variable eps : T.            (* EPS of metrics.py in T *)
Variable nln : T -> T.       (* math.log *)

Local Notation "a +. b" := (nadd N a b) (at level 50, left associativity).
Local Notation "a -. b" := (nsub N a b) (at level 50, left associativity).
Local Notation "a *. b" := (nmul N a b) (at level 40, left associativity).
Local Notation "a /. b" := (ndiv N a b) (at level 40, left associativity).
Local Notation "a <. b" := (nltb N a b) (at level 70).

Inductive sout := SErr | SNan | SVal (v : T).

(* ------------------------------------------------------------------ *)
(* numpy reductions                                                     *)

Definition sum_seq (acc : T) (l : list T) : T := fold_left (nadd N) l acc.

(* pairwise_sum, 8 <= n <= 128: eight running accumulators over full blocks of
   eight, combined as ((r0+r1)+(r2+r3))+((r4+r5)+(r6+r7)), then the n mod 8
   trailing elements one by one *)
Fixpoint pw_blocks (r0 r1 r2 r3 r4 r5 r6 r7 : T) (l : list T) : T :=
  match l with
  | a0 :: a1 :: a2 :: a3 :: a4 :: a5 :: a6 :: a7 :: rest =>
      pw_blocks (r0 +. a0) (r1 +. a1) (r2 +. a2) (r3 +. a3)
                (r4 +. a4) (r5 +. a5) (r6 +. a6) (r7 +. a7) rest
  | _ => sum_seq (((r0 +. r1) +. (r2 +. r3)) +. ((r4 +. r5) +. (r6 +. r7))) l
  end.

(* n <= 128 (n < 8: plain loop) *)
Definition pw_block (l : list T) : T :=
  match l with
  | a0 :: a1 :: a2 :: a3 :: a4 :: a5 :: a6 :: a7 :: rest =>
      pw_blocks a0 a1 a2 a3 a4 a5 a6 a7 rest
  | _ => sum_seq (n0 N) l
  end.

(* n > 128: n2 = n/2; n2 -= n2 % 8; sum(a, n2) + sum(a+n2, n-n2).
   [fuel] bounds the recursion depth (64 halvings: never exhausted for a list
   that fits in memory); when it runs out the remaining block is summed
   sequentially, so that the real-number value is the sum in every case. *)
Fixpoint pw_sum (fuel : nat) (l : list T) : T :=
  let n := length l in
  if Nat.leb n 128 then pw_block l else
  match fuel with
  | O => sum_seq (n0 N) l
  | S f => let h := Nat.div n 2 in
           let n2 := (h - Nat.modulo h 8)%nat in
           pw_sum f (firstn n2 l) +. pw_sum f (skipn n2 l)
  end.

Definition np_sum (l : list T) : T := pw_sum 64 l.

Definition nlen (l : list T) : T := nofZ N (Z.of_nat (length l)).

(* np.mean: add.reduce / n *)
Definition mean (l : list T) : T := np_sum l /. nlen l.

(* np.var (ddof=0): arrmean = sum/n; x = arr - arrmean; sum(x*x)/n *)
Definition var (l : list T) : T :=
  let m := mean l in
  np_sum (map (fun x => (x -. m) *. (x -. m)) l) /. nlen l.

Definition std (l : list T) : T := nsqrt N (var l).

(* left-to-right dot product (stands for BLAS) *)
Definition dot (a b : list T) : T :=
  sum_seq (n0 N) (map (fun p => fst p *. snd p) (combine a b)).

(* np.clip(r, -1, 1): NaN goes through *)
Definition clip1 (r : T) : T :=
  if r <. nopp N (n1 N) then nopp N (n1 N) else if n1 N <. r then n1 N else r.

(* np.corrcoef(x, y)[0, 1]: cov with ddof=1 (factor 0.0 when n-1 <= 0),
   c /= stddev[:, None]; c /= stddev[None, :]; clip *)
Definition pearson (x y : list T) : T :=
  let mx := mean x in let my := mean y in
  let xc := map (fun v => v -. mx) x in
  let yc := map (fun v => v -. my) y in
  let fact := (Z.of_nat (length x) - 1)%Z in
  let f := n1 N /. nofZ N (if (fact <=? 0)%Z then 0%Z else fact) in
  let cxx := dot xc xc *. f in
  let cyy := dot yc yc *. f in
  let cxy := dot xc yc *. f in
  clip1 ((cxy /. nsqrt N cxx) /. nsqrt N cyy).

(* scipy.stats.rankdata(method="average") *)
Definition count_if (f : T -> bool) (l : list T) : Z := Z.of_nat (length (filter f l)).
Definition midrank (l : list T) : list T :=
  map (fun v => nofZ N (2 * count_if (fun w => w <. v) l
                        + count_if (fun w => neqb N w v) l + 1) /. nofZ N 2) l.

Definition all_equal_first (l : list T) : bool :=
  match l with [] => true | a :: _ => forallb (fun v => neqb N a v) l end.

Definition spearman (x y : list T) : T :=
  if Nat.leb (length x) 1 then nnan N
  else if all_equal_first x || all_equal_first y then nnan N
  else if existsb (nisnan N) x || existsb (nisnan N) y then nnan N
  else pearson (midrank x) (midrank y).

(* ------------------------------------------------------------------ *)
(* __nonulldata: keep the pairs with both members non-null (pd.notnull: *)
(* not NaN; infinities are kept); ValueError when nothing is left       *)

Definition complete (p : T * T) : bool :=
  negb (nisnan N (fst p)) && negb (nisnan N (snd p)).

Definition nonull (o s : list T) : option (list T * list T) :=
  match filter complete (combine o s) with
  | [] => None
  | ps => Some (map fst ps, map snd ps)
  end.

(* shape test, then optional filtering, then the closed form *)
Definition with_excl (excl : bool) (core : list T -> list T -> sout)
           (o s : list T) : sout :=
  if negb (Nat.eqb (length o) (length s)) then SErr
  else if excl then
    match nonull o s with None => SErr | Some (o', s') => core o' s' end
  else core o s.

(* ------------------------------------------------------------------ *)
(* bias                                                                 *)

Inductive btype := BStd | BNorm | BLog.

Definition bias_core (ty : btype) (o s : list T) : sout :=
  let meano := mean o in
  if nabs N meano <. eps then SNan else
  let means := mean s in
  match ty with
  | BStd => SVal ((means -. meano) /. meano)
  | BNorm => SVal ((means -. meano) /. (means +. meano))
  | BLog => if (eps <. means) && (eps <. meano)
            then SVal (nln means -. nln meano) else SNan
  end.

Definition bias (fwd : T -> T) (excl : bool) (ty : btype) (obs sim : list T) : sout :=
  with_excl excl (bias_core ty) (map fwd obs) (map fwd sim).

(* ------------------------------------------------------------------ *)
(* nse                                                                  *)

Definition sqdiff (a b : T) : T := (a -. b) *. (a -. b).

Definition nse_core (o s : list T) : sout :=
  let errs := np_sum (map (fun p => sqdiff (snd p) (fst p)) (combine o s)) in
  let mo := mean o in
  let erro := np_sum (map (fun a => sqdiff mo a) o) in
  SVal (n1 N -. errs /. erro).

Definition nse (fwd : T -> T) (excl : bool) (obs sim : list T) : sout :=
  with_excl excl nse_core (map fwd obs) (map fwd sim).

(* ------------------------------------------------------------------ *)
(* kge                                                                  *)

Definition kge_core (o s : list T) : sout :=
  let meano := mean o in
  if nabs N meano <. eps then SNan else
  let means := mean s in
  let stdo := std o in
  let stds := std s in
  if nabs N stdo <. eps then SNan else
  if eps <. nabs N stds then
    let c := pearson o s in
    let a := n1 N -. means /. meano in
    let b := n1 N -. stds /. stdo in
    let d := n1 N -. c in
    SVal (n1 N -. nsqrt N (a *. a +. b *. b +. d *. d))
  else SNan.

Definition kge (fwd : T -> T) (excl : bool) (obs sim : list T) : sout :=
  with_excl excl kge_core (map fwd obs) (map fwd sim).

(* ------------------------------------------------------------------ *)
(* corr                                                                 *)

Inductive cstat := CMean | CMedian.
Inductive ctype := CPearson | CSpearman.

(* np.nanmean of one row: NaN replaced by 0, divided by the number of non-NaN *)
Definition nanmean (row : list T) : T :=
  np_sum (map (fun x => if nisnan N x then n0 N else x) row)
  /. nofZ N (count_if (fun x => negb (nisnan N x)) row).

Fixpoint ins_sorted (x : T) (l : list T) : list T :=
  match l with
  | [] => [x]
  | y :: l' => if nleb N x y then x :: l else y :: ins_sorted x l'
  end.
Definition sort_asc (l : list T) : list T := fold_right ins_sorted [] l.

(* np.nanmedian of one row *)
Definition nanmedian (row : list T) : T :=
  let v := sort_asc (filter (fun x => negb (nisnan N x)) row) in
  let n := length v in
  match n with
  | O => nnan N
  | _ => if Nat.eqb (Nat.modulo n 2) 1 then nth (Nat.div n 2) v (nnan N)
         else (nth (Nat.div n 2 - 1) v (nnan N) +. nth (Nat.div n 2) v (nnan N)) /. nofZ N 2
  end.

Definition rowstat (st : cstat) (row : list T) : T :=
  match st with CMean => nanmean row | CMedian => nanmedian row end.

Definition corr_core (ty : ctype) (o s : list T) : sout :=
  let stdo := std o in
  if nabs N stdo <. eps then SNan else
  SVal (match ty with CPearson => pearson o s | CSpearman => spearman o s end).

(* the data come as (raw value, transformed value) pairs: __check_ensemble_data
   works on the raw values (rows with a missing observation or without any
   ensemble member are dropped, ValueError when none is left), the statistic
   and the score on the transformed ones *)
Definition row_valid (p : (T * T) * list (T * T)) : bool :=
  negb (nisnan N (fst (fst p))) && existsb (fun e => negb (nisnan N (fst e))) (snd p).

Definition corr_p (excl : bool) (st : cstat) (ty : ctype)
           (obs : list (T * T)) (ens : list (list (T * T))) : sout :=
  if negb (Nat.eqb (length obs) (length ens)) then SErr else
  match filter row_valid (combine obs ens) with
  | [] => SErr
  | rows =>
      let tobs := map (fun r => snd (fst r)) rows in
      let tsim := map (fun r => rowstat st (map snd (snd r))) rows in
      with_excl excl (corr_core ty) tobs tsim
  end.

Definition corr (fwd : T -> T) (excl : bool) (st : cstat) (ty : ctype)
           (obs : list T) (ens : list (list T)) : sout :=
  corr_p excl st ty (map (fun x => (x, fwd x)) obs)
                    (map (map (fun x => (x, fwd x))) ens).

(* ------------------------------------------------------------------ *)
(* binary scores                                                        *)

Record bscores := mkB {
  b_bias : T; b_hit : T; b_prec : T; b_fa : T; b_acc : T; b_f1 : T;
  b_mcc : T; b_lor : T; b_orss : T; b_eds : T }.
Inductive bout := BErr | BOk (s : bscores).

Definition gcmp (op : gop) (a b : T) : bool :=
  match op with
  | GLt => a <. b | GLe => nleb N a b | GGt => b <. a | GGe => nleb N b a
  end.
Definition guard_ok (g : guard) (H F theta : T) : bool :=
  forallb (fun a => match a with
                    | (v, op, z) =>
                        gcmp op (match v with GH => H | GF => F | GTheta => theta end)
                             (nofZ N z)
                    end) g.

Definition zf (z : Z) : T := nofZ N z.

(* H, F, theta = H*(1-F)/(1-H)/F *)
Definition hit_rate (fn tp : Z) : T := zf tp /. zf (tp + fn).
Definition false_alarm (tn fp : Z) : T := zf fp /. zf (tn + fp).
Definition odds_theta (H F : T) : T := ((H *. (n1 N -. F)) /. (n1 N -. H)) /. F.

(* int64 wrap-around of the pinned code's integer product *)
Definition wrap64 (z : Z) : Z := ((z + 2 ^ 63) mod 2 ^ 64 - 2 ^ 63)%Z.

(* pinned code: (TP+FP)*(TP+FN)*(TN+FP)*(TN+FN) in int64, math.sqrt of it
   (ValueError when the wrapped product is negative) *)
Definition mcc_old (tn fp fn tp : Z) : option T :=
  let den := wrap64 (wrap64 (wrap64 ((tp + fp) * (tp + fn)) * (tn + fp)) * (tn + fn)) in
  if (den <? 0)%Z then None
  else Some (zf (tp * tn - fp * fn) /. nsqrt N (zf den)).

(* repaired code: the product of the four margins in floating point *)
Definition mcc_fix (tn fp fn tp : Z) : option T :=
  Some (zf (tp * tn - fp * fn)
        /. nsqrt N (((zf (tp + fp) *. zf (tp + fn)) *. zf (tn + fp)) *. zf (tn + fn))).

Definition orss_of (g : guard) (H F theta : T) : T :=
  if guard_ok g H F theta then (theta -. n1 N) /. (theta +. n1 N) else nnan N.

(* guard of the pinned code: theta > -1 and theta < 1 *)
Definition ORSS_GUARD_OLD : guard := [(GTheta, GGt, (-1)%Z); (GTheta, GLt, 1%Z)].

Definition binary_gen (mcc : Z -> Z -> Z -> Z -> option T) (og : guard)
           (tn fp fn tp : Z) : bout :=
  let pobs := (tp + fn)%Z in let nobs := (tn + fp)%Z in
  let psim := (tp + fp)%Z in
  let nval := (pobs + nobs)%Z in
  let H := hit_rate fn tp in
  let F := false_alarm tn fp in
  let theta := odds_theta H F in
  let lor := if guard_ok LOR_GUARD H F theta then nln theta else nnan N in
  match mcc tn fp fn tp with
  | None => BErr                      (* math domain error *)
  | Some m =>
      (* EDS = 2*log(Pobs/nval)/log(TP/nval)-1 : float division by log(1) = 0 raises *)
      if (0 <? tp)%Z && (tp =? nval)%Z then BErr else
      let eds := if (0 <? tp)%Z
                 then (zf 2 *. nln (zf pobs /. zf nval)) /. nln (zf tp /. zf nval) -. n1 N
                 else nnan N in
      BOk {| b_bias := zf psim /. zf pobs;
             b_hit := H;
             b_prec := zf tp /. zf psim;
             b_fa := F;
             b_acc := zf (tp + tn) /. zf nval;
             b_f1 := zf (2 * tp) /. zf (2 * tp + fp + fn);
             b_mcc := m;
             b_lor := lor;
             b_orss := orss_of og H F theta;
             b_eds := eds |}
  end.

Definition binary := binary_gen mcc_fix ORSS_GUARD.
Definition binary_old := binary_gen mcc_old ORSS_GUARD_OLD.

End Scores.

Arguments SErr {T}. Arguments SNan {T}. Arguments SVal {T}.
Arguments BErr {T}. Arguments BOk {T}.

(* ------------------------------------------------------------------ *)
(* confusion matrix                                                     *)

Open Scope Z_scope.

Fixpoint insert_u (x : Z) (l : list Z) : list Z :=
  match l with
  | [] => [x]
  | y :: l' => if x <? y then x :: l else if x =? y then l else y :: insert_u x l'
  end.
(* sorted distinct values (index / columns of pandas.crosstab, np.unique) *)
Definition sort_u (l : list Z) : list Z := fold_right insert_u [] l.

Definition pair_is (i j : Z) (p : Z * Z) : bool := (fst p =? i) && (snd p =? j).
Definition count_pair (i j : Z) (obs sim : list Z) : Z :=
  Z.of_nat (length (filter (pair_is i j) (combine obs sim))).
Definition table (rows cols obs sim : list Z) : list (list Z) :=
  map (fun i => map (fun j => count_pair i j obs sim) cols) rows.

Definition zrange (n : Z) : list Z := map Z.of_nat (seq 0 (Z.to_nat n)).

(* pinned code: number of distinct categories present *)
Definition ncat_old (rows cols : list Z) : Z := Z.of_nat (length (sort_u (rows ++ cols))).
(* repaired code: largest category + 1 (0 for empty data) *)
Definition ncat_fix (rows cols : list Z) : Z := fold_left Z.max (rows ++ cols) (-1) + 1.

Record ctable := mkCT { ct_rows : list Z; ct_cols : list Z; ct_vals : list (list Z) }.

(* crosstab; when its shape is not (ncat, ncat): missing categories of
   0..ncat-1 are added with zero counts and rows/columns re-ordered as
   0..ncat-1 (labels outside 0..ncat-1 are dropped by the re-ordering).
   None: series of different lengths (pandas raises). *)
Definition confusion_gen (infer : list Z -> list Z -> Z) (ncat : option Z)
           (obs sim : list Z) : option ctable :=
  if negb (Nat.eqb (length obs) (length sim)) then None else
  let rows := sort_u obs in
  let cols := sort_u sim in
  let n := match ncat with Some n => n | None => infer rows cols end in
  if (Z.of_nat (length rows) =? n) && (Z.of_nat (length cols) =? n)
  then Some (mkCT rows cols (table rows cols obs sim))
  else let labs := zrange n in Some (mkCT labs labs (table labs labs obs sim)).

Definition confusion := confusion_gen ncat_fix.
Definition confusion_old := confusion_gen ncat_old.

Definition zsum (l : list Z) : Z := fold_right Z.add 0 l.
Definition table_total (t : ctable) : Z := zsum (map zsum (ct_vals t)).

Close Scope Z_scope.

(* ------------------------------------------------------------------ *)
(* binary64 instance and correspondence glue                            *)
From Coq Require Import PrimFloat Uint63 FloatOps.

(* natural logarithm in binary64 for the two outputs that go through
   math.log (bias type "log", LOR, EDS): x = m * 2^e with m in [1/2, 1),
   renormalised to [sqrt(1/2), sqrt 2), ln m = 2 atanh((m-1)/(m+1)) by its
   series (13 terms: truncation error < 1e-19), plus e*ln 2.  Accurate to a
   few ulp; compared with tolerance 1e-11.  Never used in a theorem. *)
Definition f_ln2 : float := 0x1.62e42fefa39efp-1%float.
Definition f_ln (x : float) : float :=
  if PrimFloat.is_nan x then nan
  else if PrimFloat.ltb x 0%float then nan
  else if PrimFloat.eqb x 0%float then neg_infinity
  else if PrimFloat.eqb x infinity then infinity
  else
    let '(m, e) := PrimFloat.frshiftexp x in
    let ez := (Uint63.to_Z e - FloatOps.shift)%Z in
    let '(m, ez) := if PrimFloat.ltb m 0x1.6a09e667f3bcdp-1%float
                    then (PrimFloat.mul m 2%float, (ez - 1)%Z) else (m, ez) in
    let t := PrimFloat.div (PrimFloat.sub m 1%float) (PrimFloat.add m 1%float) in
    let t2 := PrimFloat.mul t t in
    let horner := fold_right (fun k acc =>
                    PrimFloat.add (PrimFloat.div 1%float (f_ofZ k)) (PrimFloat.mul t2 acc))
                    0%float [1; 3; 5; 7; 9; 11; 13; 15; 17; 19; 21; 23; 25]%Z in
    PrimFloat.add (PrimFloat.mul (f_ofZ ez) f_ln2)
                  (PrimFloat.mul (PrimFloat.mul 2%float t) horner).

Definition sout_ok (tol : float) (m : sout (T:=float)) (err : bool) (v : float) : bool :=
  match m with
  | SErr => err
  | SNan => negb err && PrimFloat.is_nan v
  | SVal x => negb err && f_close tol x v
  end.

Definition btype_of (z : Z) : btype :=
  if (z =? 0)%Z then BStd else if (z =? 1)%Z then BNorm else BLog.

(* the scores are run on the transformed series as produced by the
   implementation's own trans.forward (identity [fwd] here) *)
Inductive scase :=
  (* excl, type, T obs, T sim, ValueError?, value, tolerance *)
  | KBias (excl : bool) (ty : Z) (tobs tsim : list float) (err : bool) (v tol : float)
  | KNse (excl : bool) (tobs tsim : list float) (err : bool) (v tol : float)
  | KKge (excl : bool) (tobs tsim : list float) (err : bool) (v tol : float)
  (* excl, stat (0 mean / 1 median), type (0 Pearson / 1 Spearman),
     (raw, transformed) observations and ensemble rows *)
  | KCorr (excl : bool) (st ty : Z) (obs : list (float * float))
          (ens : list (list (float * float))) (err : bool) (v tol : float)
  (* ncat (None = inferred), obs, sim, result (None = error) *)
  | KConf (ncat : option Z) (obs sim : list Z)
          (res : option (list Z * list Z * list (list Z)))
  (* TN FP FN TP, error?, [bias; hitrate; precision; falsealarm; accuracy; F1; MCC]
     with tolerance tolp, [LOR; EDS; ORSS] (through theta and/or math.log) with tola *)
  | KBin (tn fp fn tp : Z) (err : bool) (plain : list float) (approx : list float)
         (tolp tola : float).

Definition fid (x : float) : float := x.

Definition s_ok (c : scase) : bool :=
  match c with
  | KBias excl ty o s err v tol =>
      sout_ok tol (bias F64 C04_EPS_F f_ln fid excl (btype_of ty) o s) err v
  | KNse excl o s err v tol => sout_ok tol (nse F64 fid excl o s) err v
  | KKge excl o s err v tol => sout_ok tol (kge F64 C04_EPS_F fid excl o s) err v
  | KCorr excl st ty obs ens err v tol =>
      sout_ok tol (corr_p F64 C04_EPS_F excl
                          (if (st =? 0)%Z then CMean else CMedian)
                          (if (ty =? 0)%Z then CPearson else CSpearman) obs ens) err v
  | KConf ncat obs sim res =>
      match confusion ncat obs sim, res with
      | None, None => true
      | Some t, Some (r, c, v) =>
          list_same Z.eqb (ct_rows t) r && list_same Z.eqb (ct_cols t) c &&
          list_same (list_same Z.eqb) (ct_vals t) v
      | _, _ => false
      end
  | KBin tn fp fn tp err plain approx tolp tola =>
      match binary F64 f_ln tn fp fn tp with
      | BErr => err
      | BOk b =>
          negb err &&
          list_same (f_close tolp) [b_bias b; b_hit b; b_prec b; b_fa b; b_acc b; b_f1 b;
                                    b_mcc b] plain &&
          list_same (f_close tola) [b_lor b; b_eds b; b_orss b] approx
      end
  end.
