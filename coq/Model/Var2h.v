(* Model of src/hydrodiy/data/c_var2h.c (c_var2h) and of the wrapper
   hydrodiy.data.dutils.var2h (src/hydrodiy/data/dutils.py).

   The kernel is generic over [NumOps]; the order of the floating-point
   operations is that of the C text.  Time stamps are [Z] (long long in C) and
   are converted with [nofZ] exactly where the C text casts to double.

   [endcheck = true] is the repaired kernel (a period that extends past the
   last observation is marked missing); [endcheck = false] is the kernel of
   the pinned commit, kept for the refutation theorem.

   Not modelled: the [display] printouts; the int overflow of
   [i*nbsec_per_period] and the unbounded positioning loop (property C05):
   where the C text would read past the end of [varsec] the model answers
   [VUndef], and the check never runs the implementation on such inputs. *)
From Coq Require Import ZArith Bool List.
From Hy Require Import Base.Num Gen.ConstsC14.
Import ListNotations.

Section Var2h.
Context {T : Type} (N : NumOps T).
(* the literals -1e-8 (validity of an end value) and 1e-8 (overlap) *)
Variables (inv_eps ov_eps : T).
Variable endcheck : bool.

Inductive vres := VUndef | VErr | VOk (h : list T).

(* varindex = 0; while(varsec[varindex]<=hstartsec) varindex++;
   result: the value of varindex when the loop stops, [None] when the loop
   runs past the end of the array *)
Fixpoint position (sec : list Z) (h : Z) : option nat :=
  match sec with
  | [] => None
  | t :: r => if (t <=? h)%Z then option_map S (position r h) else Some O
  end.

Section Kernel.
Variables (P rainfall maxgap hstart : Z) (sec : list Z) (vals : list T).

Definition tsec (k : nat) : Z := nth k sec 0%Z.
Definition vval (k : nat) : T := nth k vals (nnan N).

(* if(val1<-1e-8 || val2<-1e-8 || t2-t1>maxgapsec || isnan(val2) || isnan(val1)) *)
Definition invalid_iv (t1 t2 v1 v2 : T) : bool :=
  nltb N v1 inv_eps || nltb N v2 inv_eps ||
  nltb N (nofZ N maxgap) (nsub N t2 t1) || nisnan N v2 || nisnan N v1.

(* it1 = t1<start ? start : t1;  it2 = t2>end ? end : t2; *)
Definition clip_lo (t1 s : T) : T := if nltb N t1 s then s else t1.
Definition clip_hi (t2 e : T) : T := if nltb N e t2 then e else t2.

Definition two : T := nadd N (n1 N) (n1 N).

(* the body of if(it2-it1>1e-8){...}: the new value of hvalue *)
Definition add_piece (Pd s e t1 t2 v1 v2 hv : T) : T :=
  let it1 := clip_lo t1 s in
  let it2 := clip_hi t2 e in
  if nltb N ov_eps (nsub N it2 it1) then
    if (rainfall =? 1)%Z then
      (* hvalue += val2*(it2-it1)/(t2-t1)*nbsec_per_period_d *)
      nadd N hv (nmul N (ndiv N (nmul N v2 (nsub N it2 it1)) (nsub N t2 t1)) Pd)
    else
      let a := ndiv N (nsub N v2 v1) (nsub N t2 t1) in
      let vi1 := nadd N (nmul N a (nsub N it1 t1)) v1 in
      let vi2 := nadd N (nmul N a (nsub N it2 t1)) v1 in
      (* hvalue += (vali2+vali1)*(it2-it1)/2 *)
      nadd N hv (ndiv N (nmul N (nadd N vi2 vi1) (nsub N it2 it1)) two)
  else hv.

Inductive wres := WErr | WFuel | WDone (k : nat) (hv : T) (miss : bool).

(* while(t1<end){...}: [k] = varindex.  Every iteration increments varindex
   and the loop breaks when varindex+1 >= nvalvar, so [length sec] iterations
   of fuel are never exhausted. *)
Fixpoint walk (fuel : nat) (Pd s e : T) (k : nat) (t1 v1 hv : T) (miss : bool) : wres :=
  match fuel with
  | O => WFuel
  | S f =>
      if nltb N t1 e then
        let t2 := nofZ N (tsec (S k)) in
        let v2 := vval (S k) in
        if nltb N t2 t1 then WErr
        else
          let miss1 := miss || invalid_iv t1 t2 v1 v2 in
          let hv1 := add_piece Pd s e t1 t2 v1 v2 hv in
          if (length sec <=? S (S k))%nat
          then (* varindex+1 >= nvalvar: break *)
               WDone (S k) hv1 (miss1 || (endcheck && nltb N t2 e))
          else walk f Pd s e (S k) t2 v2 hv1 miss1
      else WDone k hv miss
  end.

Inductive pres := PErr | PFuel | POk (h : list T).

(* for(i=0; i<nvalh-1; i++): [cnt] periods remain, [i] is the period number,
   [k] = varindex at the top of the body *)
Fixpoint periods (cnt : nat) (i : Z) (k : nat) : pres :=
  match cnt with
  | O => POk []
  | S c =>
      let s := nofZ N (hstart + i * P) in
      let Pd := nofZ N P in
      let e := nadd N s Pd in
      match walk (length sec) Pd s e k (nofZ N (tsec k)) (vval k) (n0 N) false with
      | WDone k' hv miss =>
          let h := if miss then nnan N else ndiv N hv Pd in
          (* varindex-- *)
          match periods c (i + 1) (pred k') with
          | POk r => POk (h :: r)
          | x => x
          end
      | WErr => PErr
      | WFuel => PFuel
      end
  end.

(* [hinit]: the content of hvalues on entry (nvalh = its length); the last
   element is never written *)
Definition c_var2h (hinit : list T) : vres :=
  if (rainfall <? 0)%Z || (1 <? rainfall)%Z then VErr
  else if negb (existsb (Z.eqb P) VAR2H_C_PERIODS) then VErr
  else match position sec hstart with
       | None => VUndef
       | Some O => VErr                      (* varindex < 0 *)
       | Some (S v) =>
           match periods (length hinit - 1) 0 v with
           | POk l => VOk (l ++ skipn (length l) hinit)
           | PErr => VErr
           | PFuel => VUndef
           end
       end.

End Kernel.
End Var2h.

Arguments VUndef {T}. Arguments VErr {T}. Arguments VOk {T}.
Arguments WErr {T}. Arguments WFuel {T}. Arguments WDone {T}.
Arguments PErr {T}. Arguments PFuel {T}. Arguments POk {T}.

(* ------------------------------------------------------------------ *)
(* The wrapper dutils.var2h.

   A DatetimeIndex is (unit, raw integers, UTC offset of its zone in seconds):
   [raw] counts units of 1 s / 1 ms / 1 us / 1 ns since the epoch in UTC;
   tz_localize(None) gives the wall clock raw + off*scale (off = 0 for a naive
   index).  Zones are modelled with a constant offset over the series. *)

Definition unit_scale (u : Z) : Z :=
  if (u =? 0)%Z then 1 else if (u =? 1)%Z then 1000
  else if (u =? 2)%Z then 1000000 else 1000000000.

(* repaired wrapper: time.astype("datetime64[s]").astype(np.int64) *)
Definition index_seconds (u off : Z) (raw : list Z) : list Z :=
  map (fun r => ((r + off * unit_scale u) / unit_scale u)%Z) raw.

(* pinned wrapper: np.int64(time.astype(np.int64)/1000000000) whatever the
   unit (the float division is exact on the witnesses used; truncation) *)
Definition index_seconds_old (u off : Z) (raw : list Z) : list Z :=
  map (fun r => Z.quot (r + off * unit_scale u) 1000000000) raw.

(* hstart = datetime(year, month, day, hour) + delta(hours=1), in seconds *)
Definition hour_origin (t0 : Z) : Z := (t0 / 3600 * 3600 + VAR2H_PY_ORIGIN_SHIFT)%Z.

Inductive pyres {T : Type} := PyUndef | PyErr | PyOk (hstart : Z) (h : list T).
Arguments pyres : clear implicits.

Section Wrapper.
Context {T : Type} (N : NumOps T).
Variables (inv_eps ov_eps : T).
Variable endcheck : bool.
(* the conversion of the index to seconds (repaired or pinned) *)
Variable to_seconds : Z -> Z -> list Z -> list Z.

Definition py_var2h (u off : Z) (raw : list Z) (vals : list T)
    (P maxgap : Z) (rainfall : bool) : pyres T :=
  if negb (existsb (Z.eqb P) VAR2H_PY_PERIODS) then PyErr
  else if (maxgap <? VAR2H_PY_MAXGAP_MIN)%Z then PyErr
  else
    let sec := to_seconds u off raw in
    match sec with
    | [] => PyErr                                    (* se.index[0] *)
    | t0 :: _ =>
        let hstart := hour_origin t0 in
        (* nvalh = np.int32((end-start).total_seconds()/nbsec_per_period) *)
        let nvalh := Z.quot (last sec t0 - t0) P in
        if (nvalh <? 0)%Z then PyErr                 (* np.ones(negative) *)
        else
          match c_var2h N inv_eps ov_eps endcheck P (if rainfall then 1 else 0)%Z
                        maxgap hstart sec vals
                        (repeat (nnan N) (Z.to_nat nvalh)) with
          | VOk h => PyOk hstart h
          | VErr => PyErr
          | VUndef => PyUndef
          end
    end.
End Wrapper.

(* ------------------------------------------------------------------ *)
(* instances *)
From Coq Require Import PrimFloat Reals.

Definition c_var2h_F64 :=
  c_var2h F64 VAR2H_INVALID_EPS_F VAR2H_OVERLAP_EPS_F true.
Definition py_var2h_F64 :=
  py_var2h F64 VAR2H_INVALID_EPS_F VAR2H_OVERLAP_EPS_F true index_seconds.

(* reals with an explicit missing value ([None] = NaN) *)
Definition c_var2h_RN (endcheck : bool) :=
  c_var2h RN (Some VAR2H_INVALID_EPS_R) (Some VAR2H_OVERLAP_EPS_R) endcheck.
Definition py_var2h_RN (endcheck : bool) :=
  py_var2h RN (Some VAR2H_INVALID_EPS_R) (Some VAR2H_OVERLAP_EPS_R) endcheck.

(* ---- correspondence-check glue (binary64 instance) ---- *)

(* kernel level: c_hydrodiy_data.var2h(maxgapsec, hstartsec, nbsec_per_period,
   rainfall, display=0, varsec, varvalues, hvalues).
   vk_expect = None: a non-zero error code; Some h: the content of hvalues *)
Record vkcase := {
  vk_P : Z; vk_rain : Z; vk_maxgap : Z; vk_hstart : Z;
  vk_sec : list Z; vk_vals : list float; vk_hinit : list float;
  vk_expect : option (list float) }.

Definition vk_ok (c : vkcase) : bool :=
  match c_var2h_F64 (vk_P c) (vk_rain c) (vk_maxgap c) (vk_hstart c)
                    (vk_sec c) (vk_vals c) (vk_hinit c), vk_expect c with
  | VErr, None => true
  | VOk h, Some e => list_same f_same h e
  | _, _ => false
  end.

(* wrapper level: dutils.var2h(se, nbsec_per_period, maxgapsec, rainfall).
   vp_expect = None: ValueError; Some (t, h): epoch seconds of the first
   stamp of the returned index, returned values *)
Record vpcase := {
  vp_unit : Z; vp_off : Z; vp_raw : list Z; vp_vals : list float;
  vp_P : Z; vp_maxgap : Z; vp_rain : bool;
  vp_expect : option (Z * list float) }.

Definition vp_ok (c : vpcase) : bool :=
  match py_var2h_F64 (vp_unit c) (vp_off c) (vp_raw c) (vp_vals c)
                     (vp_P c) (vp_maxgap c) (vp_rain c), vp_expect c with
  | PyErr, None => true
  | PyOk t h, Some (t', e) =>
      (* an empty Series has no first label to compare *)
      (match e with [] => true | _ => (t =? t')%Z end) && list_same f_same h e
  | _, _ => false
  end.

Inductive vcase := VKernel (c : vkcase) | VWrapper (c : vpcase).
Definition v_ok (c : vcase) : bool :=
  match c with VKernel k => vk_ok k | VWrapper p => vp_ok p end.

(* second comparator, used only on the cases on which the exact one fails:
   same NaN pattern and |a-b| <= 1e-11*max(1,|b|).  A case that passes this
   one but not the exact one is counted as rounding drift (a re-association
   of the floating-point expression), not as a disagreement. *)
Definition drift_tol : float := 0x1.5fd7fe1796495p-37%float.   (* 1e-11 *)

Definition vk_ok_close (c : vkcase) : bool :=
  match c_var2h_F64 (vk_P c) (vk_rain c) (vk_maxgap c) (vk_hstart c)
                    (vk_sec c) (vk_vals c) (vk_hinit c), vk_expect c with
  | VErr, None => true
  | VOk h, Some e => list_same (f_close drift_tol) h e
  | _, _ => false
  end.

Definition vp_ok_close (c : vpcase) : bool :=
  match py_var2h_F64 (vp_unit c) (vp_off c) (vp_raw c) (vp_vals c)
                     (vp_P c) (vp_maxgap c) (vp_rain c), vp_expect c with
  | PyErr, None => true
  | PyOk t h, Some (t', e) =>
      (match e with [] => true | _ => (t =? t')%Z end) && list_same (f_close drift_tol) h e
  | _, _ => false
  end.

Definition v_ok_close (c : vcase) : bool :=
  match c with VKernel k => vk_ok_close k | VWrapper p => vp_ok_close p end.
