(* Models for property C20 (sampling, ranking and summary helpers):

     src/hydrodiy/stat/sutils.py      ppos, lhs, standard_normal, pareto_front
     src/hydrodiy/stat/c_paretofront.c  c_paretofront
     src/hydrodiy/plot/boxplot.py     compute_percentiles, boxplot_stats,
                                      the coverage checks of Boxplot.__init__,
                                      the group-wise statistics of Boxplot._compute
     src/hydrodiy/plot/violinplot.py  the quantiles, the number of profile points, the
                                      abscissae and the min-max normalisation of Violin._compute
   plus the two numpy routines the Python code delegates to (numpy.linspace and the
   default "linear" method of numpy.percentile / nanpercentile / pandas quantile),
   transcribed with numpy's order of floating-point operations.

   Everything is generic over [NumOps]; constants come from Gen/ConstsC20.v as pairs of
   integers [X_NUM / X_DEN] (the correctly rounded quotient of two exactly represented
   integers is the double the Python literal denotes).  No proofs in this file. *)
From Coq Require Import ZArith Bool List.
From Hy Require Import Base.Num Gen.ConstsC20.
Import ListNotations.

(* ---------- arithmetic-independent helpers ---------- *)
Fixpoint zseq (start : Z) (len : nat) : list Z :=
  match len with O => [] | S k => start :: zseq (start + 1)%Z k end.

Fixpoint set_last {A} (l : list A) (v : A) : list A :=
  match l with
  | [] => []
  | [_] => [v]
  | x :: r => x :: set_last r v
  end.

Fixpoint map2 {A B C} (f : A -> B -> C) (la : list A) (lb : list B) : list C :=
  match la, lb with
  | a :: ra, b :: rb => f a b :: map2 f ra rb
  | _, _ => []
  end.

Fixpoint insert_le {A} (le : A -> A -> bool) (x : A) (l : list A) : list A :=
  match l with
  | [] => [x]
  | y :: r => if le x y then x :: l else y :: insert_le le x r
  end.
Definition isort_le {A} (le : A -> A -> bool) (l : list A) : list A :=
  fold_right (insert_le le) [] l.

(* sorted list of the distinct values of a list of integers (category labels) *)
Fixpoint zinsert_uniq (x : Z) (l : list Z) : list Z :=
  match l with
  | [] => [x]
  | y :: r => if (x <? y)%Z then x :: l else if (x =? y)%Z then l else y :: zinsert_uniq x r
  end.
Definition zcats (l : list Z) : list Z := fold_right zinsert_uniq [] l.

(* the elements of [data] whose label is [c] *)
Fixpoint select_by {A} (c : Z) (by_ : list Z) (data : list A) : list A :=
  match by_, data with
  | b :: rb, x :: rd => if (b =? c)%Z then x :: select_by c rb rd else select_by c rb rd
  | _, _ => []
  end.

Section Summary.
Context {T : Type} (N : NumOps T).

Definition qc (num den : Z) : T := ndiv N (nofZ N num) (nofZ N den).

(* =====================================================================
   sutils.ppos
   ===================================================================== *)

(* if cst < 0. or cst > 0.5: raise ValueError *)
Definition ppos_cst_ok (cst : T) : bool :=
  negb (nltb N cst (qc PPOS_CST_MIN_NUM PPOS_CST_MIN_DEN) ||
        nltb N (qc PPOS_CST_MAX_NUM PPOS_CST_MAX_DEN) cst).

(* nval+1-2*cst *)
Definition ppos_den (nval : Z) (cst : T) : T :=
  nsub N (nofZ N (nval + 1)) (nmul N (nofZ N 2) cst).

(* (i-cst)/(nval+1-2*cst) *)
Definition ppos_at (nval : Z) (cst : T) (i : Z) : T :=
  ndiv N (nsub N (nofZ N i) cst) (ppos_den nval cst).

Definition ppos (nval : Z) (cst : T) : option (list T) :=
  if ppos_cst_ok cst
  then Some (map (ppos_at nval cst) (zseq 1 (Z.to_nat nval)))
  else None.

(* =====================================================================
   sutils.standard_normal (up to the call of norm.ppf)
   ===================================================================== *)

Definition count_lt (l : list T) (x : T) : Z :=
  Z.of_nat (length (filter (fun y => nltb N y x) l)).
Definition count_eq (l : list T) (x : T) : Z :=
  Z.of_nat (length (filter (fun y => neqb N y x) l)).

(* pandas Series.rank(method="average") - 1 :
   mean of the positions less+1 .. less+eq, minus one *)
Definition rank_avg (l : list T) (x : T) : T :=
  nsub N (ndiv N (nofZ N (2 * count_lt l x + count_eq l x + 1)) (nofZ N 2)) (n1 N).

(* (ranks+1-cst)/(nval+1-2*cst) : the argument handed to norm.ppf *)
Definition nscore_arg (nval : Z) (cst : T) (r : T) : T :=
  ndiv N (nsub N (nadd N r (n1 N)) cst) (ppos_den nval cst).

(* (ranks, ppf arguments); None = ValueError (NaN in the data) *)
Definition standard_normal_args (x : list T) (cst : T) (sorted : bool)
  : option (list T * list T) :=
  if existsb (nisnan N) x then None
  else
    let nval := Z.of_nat (length x) in
    let ranks := if sorted then map (nofZ N) (zseq 0 (length x))
                 else map (rank_avg x) x in
    Some (ranks, map (nscore_arg nval cst) ranks).

(* =====================================================================
   numpy.linspace(start, stop, num)  (endpoint=True, scalar start/stop)
   ===================================================================== *)

Definition linspace (start stop : T) (num : Z) : list T :=
  let div := (num - 1)%Z in
  let delta := nsub N stop start in
  let ys := map (nofZ N) (zseq 0 (Z.to_nat num)) in
  let ys1 :=
    if (0 <? div)%Z then
      let step := ndiv N delta (nofZ N div) in
      if neqb N step (n0 N)
      then map (fun y => nmul N (ndiv N y (nofZ N div)) delta) ys
      else map (fun y => nmul N y step) ys
    else map (fun y => nmul N y delta) ys in
  let ys2 := map (fun y => nadd N y start) ys1 in
  if (1 <? num)%Z then set_last ys2 stop else ys2.

(* =====================================================================
   sutils.lhs : one parameter, then all of them.
   The permutation [kk] and the jitters [jit] drawn by numpy are inputs.
   ===================================================================== *)

Definition lhs_du (n : Z) (pmin pmax : T) : T := ndiv N (nsub N pmax pmin) (nofZ N n).

(* u = np.linspace(pmin+du/2, pmax-du/2, nsamples) *)
Definition lhs_centres (n : Z) (pmin pmax : T) : list T :=
  let h := ndiv N (lhs_du n pmin pmax) (nofZ N 2) in
  linspace (nadd N pmin h) (nsub N pmax h) n.

(* s = u[kk] + jitter *)
Definition lhs_param (n : Z) (pmin pmax : T) (kk : list Z) (jit : list T) : list T :=
  let u := lhs_centres n pmin pmax in
  map2 (fun k j => nadd N (nth (Z.to_nat k) u (nnan N)) j) kk jit.

(* if np.any(pmax - pmin <= 0): raise *)
Definition lhs_bounds_ok (pmins pmaxs : list T) : bool :=
  forallb (fun p => negb (nleb N (nsub N (snd p) (fst p)) (n0 N))) (combine pmins pmaxs).

Fixpoint lhs_cols (n : Z) (pmins pmaxs : list T) (kks : list (list Z)) (jits : list (list T))
  : list (list T) :=
  match pmins, pmaxs, kks, jits with
  | a :: ra, b :: rb, kk :: rk, jit :: rj => lhs_param n a b kk jit :: lhs_cols n ra rb rk rj
  | _, _, _, _ => []
  end.

(* columns of the sample matrix; None = an exception *)
Definition lhs (n : Z) (pmins pmaxs : list T) (kks : list (list Z)) (jits : list (list T))
  : option (list (list T)) :=
  if negb (Nat.eqb (length pmins) (length pmaxs)) then None
  else if negb (lhs_bounds_ok pmins pmaxs) then None
  else if (n <=? 0)%Z then None
  else Some (lhs_cols n pmins pmaxs kks jits).

(* =====================================================================
   c_paretofront.c  (data as a list of rows)
   ===================================================================== *)

(* one coordinate: diff = data[j][k]-data[i][k]; if(isnan(diff)) continue;
   dom *= (int)(orientationd*diff>0) *)
Definition pf_coord (od : T) (p : T * T) : bool :=
  let diff := nsub N (fst p) (snd p) in
  if nisnan N diff then true else nltb N (n0 N) (nmul N od diff).

(* dom == 1 after the loop over k : row rj dominates row ri *)
Definition pf_dominates (od : T) (rj ri : list T) : bool :=
  forallb (pf_coord od) (combine rj ri).

(* loop over j != i with break at the first dominating point *)
Fixpoint pf_any (od : T) (ri : list T) (i : nat) (j : nat) (rows : list (list T)) : bool :=
  match rows with
  | [] => false
  | rj :: rest =>
      if Nat.eqb i j then pf_any od ri i (S j) rest
      else if pf_dominates od rj ri then true
      else pf_any od ri i (S j) rest
  end.

Fixpoint pf_loop (od : T) (all : list (list T)) (i : nat) (rows : list (list T)) : list Z :=
  match rows with
  | [] => []
  | ri :: rest => (if pf_any od ri i 0 all then 1%Z else 0%Z) :: pf_loop od all (S i) rest
  end.

Definition paretofront (orientation : Z) (data : list (list T)) : list Z :=
  pf_loop (nofZ N orientation) data 0 data.

(* =====================================================================
   boxplot.compute_percentiles, level list
   ===================================================================== *)

(* qq1 = float(100-coverage)/2 ; qq2 = 100.-qq1 *)
Definition compute_percentiles (coverage : T) : T * T :=
  let qq1 := ndiv N (nsub N (qc PCT_TOTAL_NUM PCT_TOTAL_DEN) coverage)
                    (qc PCT_HALVE_NUM PCT_HALVE_DEN) in
  (qq1, nsub N (qc PCT_COMPL_NUM PCT_COMPL_DEN) qq1).

(* qq = [wqq1, bqq1, 50, bqq2, wqq2] *)
Definition box_levels (box whiskers : T) : list T :=
  let b := compute_percentiles box in
  let w := compute_percentiles whiskers in
  [fst w; fst b; qc PCT_MEDIAN_NUM PCT_MEDIAN_DEN; snd b; snd w].

(* Boxplot.__init__: box_coverage < 40. and whiskers_coverage <= box_coverage are rejected *)
Definition coverages_ok (box whiskers : T) : bool :=
  negb (nltb N box (qc BOX_COVERAGE_MIN_NUM BOX_COVERAGE_MIN_DEN)) &&
  negb (nleb N whiskers box).

(* =====================================================================
   finite-value mask, order statistics, numpy's linear percentile
   ===================================================================== *)

(* (~isnan(x)) & (~isinf(x)) : x-x is NaN exactly for NaN and +-inf *)
Definition nisfinite (x : T) : bool :=
  negb (nisnan N x) && negb (nisnan N (nsub N x x)).

Definition finite_values (data : list T) : list T := filter nisfinite data.

Definition sort_values (l : list T) : list T := isort_le (nleb N) l.

(* numpy _lerp(a, b, t): a + (b-a)*t, replaced by b - (b-a)*(1-t) where t >= 0.5 *)
Definition lerp (a b t : T) : T :=
  let d := nsub N b a in
  if nleb N (qc 1 2) t then nsub N b (nmul N d (nsub N (n1 N) t))
  else nadd N a (nmul N d t).

(* numpy.percentile(s, p) for a sorted, non-empty, finite s (method "linear"):
   q = p/100; virtual index (n-1)*q; neighbours floor and floor+1;
   at or above n-1: the last element; below 0: the first *)
Definition percentile (s : list T) (p : T) : T :=
  let n := Z.of_nat (length s) in
  let q := ndiv N p (nofZ N 100) in
  let v := nmul N (nofZ N (n - 1)) q in
  if nleb N (nofZ N (n - 1)) v then last s (nnan N)
  else if nltb N v (n0 N) then hd (nnan N) s
  else match nfloor N v with
       | None => nnan N
       | Some lo =>
           lerp (nth (Z.to_nat lo) s (nnan N)) (nth (Z.to_nat (lo + 1)) s (nnan N))
                (nsub N v (nofZ N lo))
       end.

Definition tsum (l : list T) : T := fold_left (nadd N) l (n0 N).
Definition tmean (l : list T) : T := ndiv N (tsum l) (nofZ N (Z.of_nat (length l))).
Definition tmax (l : list T) : T :=
  match l with [] => nnan N | x :: r => fold_left (fun a y => if nltb N a y then y else a) r x end.
Definition tmin (l : list T) : T :=
  match l with [] => nnan N | x :: r => fold_left (fun a y => if nltb N y a then y else a) r x end.

(* =====================================================================
   boxplot.boxplot_stats
   ===================================================================== *)

Record bstats := mkBstats {
  bs_count : Z;          (* "count" *)
  bs_prc : list T;       (* the five percentiles, in the order of box_levels *)
  bs_mean : T; bs_max : T; bs_min : T }.

Definition bstats_nan (nok : Z) : bstats :=
  mkBstats nok (map (fun _ => nnan N) (seq 0 5)) (nnan N) (nnan N) (nnan N).

Definition boxplot_stats (data : list T) (box whiskers : T) : bstats :=
  let fin := finite_values data in
  let nok := Z.of_nat (length fin) in
  if (BOX_NOK_MIN <? nok)%Z then
    mkBstats nok (map (percentile (sort_values fin)) (box_levels box whiskers))
             (tmean fin) (tmax fin) (tmin fin)
  else bstats_nan nok.

(* Boxplot(data, by=...).stats : one column per category (ascending), computed from the
   values carrying that label; None = BoxplotError *)
Definition boxplot_by (by_ : list Z) (data : list T) (box whiskers : T)
  : option (list (Z * bstats)) :=
  let cats := zcats by_ in
  if Nat.eqb (length cats) 1 then None
  else if negb (coverages_ok box whiskers) then None
  else Some (map (fun c => (c, boxplot_stats (select_by c by_ data) box whiskers)) cats).

(* Boxplot(data).stats for one column *)
Definition boxplot_col (data : list T) (box whiskers : T) : option bstats :=
  if coverages_ok box whiskers then Some (boxplot_stats data box whiskers) else None.

(* =====================================================================
   violinplot.Violin._compute
   ===================================================================== *)

(* pandas quantile(q): numpy.percentile(finite values, q*100) *)
Definition pd_quantile (s : list T) (q : T) : T :=
  percentile s (nmul N q (nofZ N 100)).

(* levels Q0, Q25, median, Q75, Q100 as the code computes them: cpp/100 and epp/100 *)
Definition violin_qlevels : list T :=
  let c := compute_percentiles (qc VIOLIN_COVERAGE_CENTER_NUM VIOLIN_COVERAGE_CENTER_DEN) in
  let e := compute_percentiles (qc VIOLIN_COVERAGE_EXTREMES_NUM VIOLIN_COVERAGE_EXTREMES_DEN) in
  let h := nofZ N 100 in
  [ndiv N (fst e) h; ndiv N (fst c) h; qc 1 2; ndiv N (snd c) h; ndiv N (snd e) h].

(* rows Q0, Q25, median, Q75, Q100 of Violin.stats for one column (repaired code: the
   statistics are those of the finite values; no finite value: NaN) *)
Definition violin_stats (data : list T) : list T :=
  let fin := finite_values data in
  match fin with
  | [] => map (fun _ => nnan N) violin_qlevels
  | _ => map (pd_quantile (sort_values fin)) violin_qlevels
  end.

(* the pinned code took the quantiles over every non-NaN value, +-inf included
   (kept to exhibit the defect: see Props/C20.v, C20_violin_pinned_refuted) *)
Definition violin_stats_pinned (data : list T) : list T :=
  let nn := filter (fun x => negb (nisnan N x)) data in
  match nn with
  | [] => map (fun _ => nnan N) violin_qlevels
  | _ => map (pd_quantile (sort_values nn)) violin_qlevels
  end.

(* npoints_kde = max(100, min(500, len(data))) *)
Definition violin_npoints (nrows : Z) : Z :=
  Z.max VIOLIN_NPOINTS_LO (Z.min VIOLIN_NPOINTS_HI nrows).

(* a density profile is computed when more than 2 values are finite and scipy's
   gaussian_kde accepts the sample ([kde_ok]: external; it refuses constant samples) *)
Definition violin_has_profile (data : list T) (kde_ok : bool) : bool :=
  (VIOLIN_KDE_NOK_MAX <? Z.of_nat (length (finite_values data)))%Z && kde_ok.

(* x = sort(concatenate([linspace(x0, x1, npts - npts//2),
                           sen.quantile(linspace(0, 1, npts//2)) + err]))
   with err = 1e-6 * u, u the recorded draw of np.random.uniform(-1, 1, npts//2).
   [nreg] is the number of regularly spaced points: npts - npts//2 in the repaired code,
   npts//2 in the pinned code (one point short when npts is odd: the assignment into the
   npts-row frame then raised). *)
Definition violin_kde_x_gen (nreg : Z) (data : list T) (npts : Z) (u : list T) : list T :=
  let fin := finite_values data in
  let s := sort_values fin in
  let m := (npts / 2)%Z in
  let q := linspace (n0 N) (n1 N) m in
  let err := map (nmul N (qc VIOLIN_ERR_SCALE_NUM VIOLIN_ERR_SCALE_DEN)) u in
  sort_values (linspace (tmin fin) (tmax fin) nreg ++
               map2 (nadd N) (map (pd_quantile s) q) err).

Definition violin_kde_x (data : list T) (npts : Z) (u : list T) : list T :=
  violin_kde_x_gen (npts - npts / 2)%Z data npts u.
Definition violin_kde_x_pinned (data : list T) (npts : Z) (u : list T) : list T :=
  violin_kde_x_gen (npts / 2)%Z data npts u.

(* y = (y-y.min())/(y.max()-y.min()) *)
Definition normalise (y : list T) : list T :=
  let mn := tmin y in
  let mx := tmax y in
  map (fun v => ndiv N (nsub N v mn) (nsub N mx mn)) y.

End Summary.

(* =====================================================================
   correspondence-check glue (binary64 instance)
   ===================================================================== *)
From Coq Require Import PrimFloat.

(* |a-b| <= tol*scale, same NaN pattern *)
Definition f_near (tol scale a b : float) : bool :=
  f_same a b ||
  (negb (PrimFloat.is_nan a) && negb (PrimFloat.is_nan b) &&
   PrimFloat.leb (PrimFloat.abs (PrimFloat.sub a b)) (PrimFloat.mul tol scale)).

Definition z_same (a b : list Z) : bool := list_same Z.eqb a b.

Fixpoint list_same2 {A B} (eq : A -> B -> bool) (l1 : list A) (l2 : list B) : bool :=
  match l1, l2 with
  | [], [] => true
  | a :: l1', b :: l2' => eq a b && list_same2 eq l1' l2'
  | _, _ => false
  end.

Definition opt_same2 {A B} (eq : A -> B -> bool) (a : option A) (b : option B) : bool :=
  match a, b with
  | None, None => true
  | Some x, Some y => eq x y
  | _, _ => false
  end.

Definition opt_same {A} (eq : A -> A -> bool) (a b : option A) : bool :=
  match a, b with
  | None, None => true
  | Some x, Some y => eq x y
  | _, _ => false
  end.

(* largest finite magnitude of a list, at least 1 *)
Definition f_scale (l : list float) : float :=
  fold_left (fun a x => if PrimFloat.is_nan x then a
                        else if PrimFloat.eqb (PrimFloat.abs x) infinity then a
                        else if PrimFloat.ltb a (PrimFloat.abs x) then PrimFloat.abs x else a)
            l PrimFloat.one.

(* implementation's boxplot statistics of one column / group *)
Record fstats := mkFstats {
  fs_count : Z; fs_prc : list float; fs_mean : float; fs_max : float; fs_min : float }.

(* count, max, min and the NaN row exact; percentiles bit-exact (numpy's operation order is
   modelled); mean to 1e-13 * max|x| (pandas/numpy pairwise summation is not modelled) *)
Definition bstats_agree (scale : float) (m : bstats (T:=float)) (e : fstats) : bool :=
  (bs_count m =? fs_count e)%Z &&
  list_same f_same (bs_prc m) (fs_prc e) &&
  f_near 0x1p-43 scale (bs_mean m) (fs_mean e) &&
  f_same (bs_max m) (fs_max e) && f_same (bs_min m) (fs_min e).

Inductive scase :=
  (* ppos(nval, cst) -> expected (None = ValueError) *)
  | CPpos (nval : Z) (cst : float) (expect : option (list float))
  (* standard_normal(x, cst, sorted): expected ranks and recorded ppf arguments *)
  | CSnorm (x : list float) (cst : float) (sorted : bool)
           (expect : option (list float * list float))
  (* numpy.linspace itself (library assumption of the model) *)
  | CLinspace (start stop : float) (num : Z) (expect : list float)
  (* lhs(n, pmin, pmax) with the recorded permutations and jitters; expected columns *)
  | CLhs (n : Z) (pmins pmaxs : list float) (kks : list (list Z)) (jits : list (list float))
         (expect : option (list (list float)))
  (* pareto_front(data, orientation) *)
  | CPareto (orientation : Z) (data : list (list float)) (expect : list Z)
  (* numpy.percentile on sorted finite data (library assumption of the model) *)
  | CPercentile (s : list float) (p : float) (expect : float)
  (* boxplot_stats / Boxplot(data).stats, one column; None = BoxplotError *)
  | CBox (data : list float) (box whiskers : float) (expect : option fstats)
  (* Boxplot(data, by).stats *)
  | CBoxBy (by_ : list Z) (data : list float) (box whiskers : float)
           (expect : option (list (Z * fstats)))
  (* Violin(data).stats, one column *)
  | CViolin (data : list float) (expect : list float)
  (* Violin: number of profile points, profile present, abscissae (recorded err) *)
  | CViolinX (data : list float) (nrows : Z) (u : list float) (kde_ok : bool)
             (npts : Z) (has : bool) (expect : list float)
  (* min-max normalisation of a recorded raw density profile *)
  | CNorm (y : list float) (expect : list float).

Definition by_agree (scale : float) (m : list (Z * bstats (T:=float))) (e : list (Z * fstats)) : bool :=
  list_same2 (fun a b => (fst a =? fst b)%Z && bstats_agree scale (snd a) (snd b)) m e.

Definition s_ok (c : scase) : bool :=
  match c with
  | CPpos nval cst e => opt_same (list_same f_same) (ppos F64 nval cst) e
  | CSnorm x cst sorted e =>
      opt_same (fun a b => list_same f_same (fst a) (fst b) && list_same f_same (snd a) (snd b))
               (standard_normal_args F64 x cst sorted) e
  | CLinspace a b num e => list_same f_same (linspace F64 a b num) e
  | CLhs n pmins pmaxs kks jits e =>
      opt_same (list_same (list_same f_same)) (lhs F64 n pmins pmaxs kks jits) e
  | CPareto o data e => z_same (paretofront F64 o data) e
  | CPercentile s p e => f_same (percentile F64 s p) e
  | CBox data box wh e =>
      opt_same2 (bstats_agree (f_scale data)) (boxplot_col F64 data box wh) e
  | CBoxBy by_ data box wh e =>
      opt_same2 (by_agree (f_scale data)) (boxplot_by F64 by_ data box wh) e
  | CViolin data e =>
      list_same (f_near 0x1p-43 (f_scale data)) (violin_stats F64 data) e
  | CViolinX data nrows u kde_ok npts has e =>
      (violin_npoints nrows =? npts)%Z && Bool.eqb (violin_has_profile F64 data kde_ok) has &&
      (if has then list_same (f_near 0x1p-40 (f_scale data)) (violin_kde_x F64 data npts u) e
       else true)
  | CNorm y e => list_same f_same (normalise F64 y) e
  end.
