(* Model of the grid input/output code of src/hydrodiy/gis/grid.py (property C13):
     Grid.save (header text + raw data), Grid.from_stream / from_header / load
     (header parser, numpy dtype, raw decoding with the byte order of the file),
     Grid.__init__ (conversions of the constructor), Grid.to_dict / from_dict,
     Grid.clip (index arithmetic on Model/Grid.v), Catchment.to_dict / from_dict.

   The model follows the REPAIRED code (fix: commits of DESIGN section 6, rows 21
   and 25); the behaviour of the pinned commit is kept in the `_pinned`
   definitions, used only by the `..._refuted` theorems.

   Numbers: integers are Z and are printed / parsed in decimal by real string
   functions (DecimalString of the standard library).  Floating-point values are
   generic (NumOps T); the text form of a float is an OPAQUE token produced by
   the printer `io_pr` of an [IoOps T] record and read back by `io_rd`
   (Python: format(x) = repr of the double, float(token)); `io_prs`/`io_rds`
   are numpy's str(scalar) and dtype(string) used by to_dict/from_dict.
   Cell values are bit patterns (Z, unsigned, one per cell).

   No proofs in this file. *)
From Coq Require Import ZArith Bool List String Ascii DecimalString DecimalZ.
From Hy Require Import Base.Num Gen.ConstsC13 Model.Grid.
Import ListNotations.
Open Scope string_scope.
Open Scope list_scope.
Open Scope Z_scope.

Infix "+++" := String.append (at level 60, right associativity).

(* ====================================================================== *)
(* 1. strings                                                               *)

Definition sp : ascii := " "%char.
Definition nl : ascii := "010"%char.
Definition NL : string := String nl EmptyString.

Definition is_sp (c : ascii) : bool := Ascii.eqb c sp.
Definition is_nl (c : ascii) : bool := Ascii.eqb c nl.
(* str.strip(): the ASCII white space of Python (blank, \t \n \v \f \r, \x1c-\x1f) *)
Definition is_ws (c : ascii) : bool :=
  let n := Z.of_N (N_of_ascii c) in
  (n =? 32) || ((9 <=? n) && (n <=? 13)) || ((28 <=? n) && (n <=? 31)).

Definition lower_c (c : ascii) : ascii :=
  let n := N_of_ascii c in
  if ((65 <=? n) && (n <=? 90))%N then ascii_of_N (n + 32) else c.
Definition upper_c (c : ascii) : ascii :=
  let n := N_of_ascii c in
  if ((97 <=? n) && (n <=? 122))%N then ascii_of_N (n - 32) else c.

Fixpoint smap (f : ascii -> ascii) (s : string) : string :=
  match s with
  | EmptyString => EmptyString
  | String c r => String (f c) (smap f r)
  end.
Definition lower := smap lower_c.
Definition upper := smap upper_c.

Fixpoint sall (p : ascii -> bool) (s : string) : bool :=
  match s with
  | EmptyString => true
  | String c r => p c && sall p r
  end.
Definition no_sp (s : string) : bool := sall (fun c => negb (is_sp c)) s.
Definition no_ws (s : string) : bool := sall (fun c => negb (is_ws c)) s.
Definition no_nl (s : string) : bool := sall (fun c => negb (is_nl c)) s.

Fixpoint lstrip (s : string) : string :=
  match s with
  | EmptyString => EmptyString
  | String c r => if is_ws c then lstrip r else s
  end.
Fixpoint rstrip (s : string) : string :=
  match s with
  | EmptyString => EmptyString
  | String c r =>
      let r' := rstrip r in
      if is_ws c && String.eqb r' EmptyString then EmptyString else String c r'
  end.
Definition strip (s : string) : string := rstrip (lstrip s).

Fixpoint spaces (n : nat) : string :=
  match n with O => EmptyString | S k => String sp (spaces k) end.
(* "{0:<w}".format(s) *)
Definition ljust (w : Z) (s : string) : string :=
  s +++ spaces (Z.to_nat (w - Z.of_nat (String.length s))).

(* re.sub(" +", " ", s): every run of blanks becomes one blank *)
Fixpoint collapse (s : string) (prev_sp : bool) : string :=
  match s with
  | EmptyString => EmptyString
  | String c r =>
      if is_sp c then (if prev_sp then collapse r true else String sp (collapse r true))
      else String c (collapse r false)
  end.
(* re.split(" ", s): never empty; empty first/last token for a leading/trailing blank *)
Fixpoint split1 (s : string) : list string :=
  match s with
  | EmptyString => [EmptyString]
  | String c r =>
      if is_sp c then EmptyString :: split1 r
      else match split1 r with
           | t :: ts => String c t :: ts
           | [] => [String c EmptyString]
           end
  end.
Definition tokens (line : string) : list string := split1 (collapse line false).

(* file.readlines(): lines keep their newline; a last line may lack it *)
Fixpoint readlines (s : string) : list string :=
  match s with
  | EmptyString => []
  | String c r =>
      if is_nl c then String c EmptyString :: readlines r
      else match readlines r with
           | l :: ls => String c l :: ls
           | [] => [String c EmptyString]
           end
  end.

Definition mem (s : string) (l : list string) : bool := existsb (String.eqb s) l.

(* decimal integers: str(int) / int(str) *)
Definition show_Z (z : Z) : string := NilZero.string_of_int (Z.to_int z).
(* int(s) for a stripped s: optional sign, at least one digit (underscores and
   non-ASCII digits are outside the generators) *)
Definition parse_Z (s : string) : option Z :=
  match s with
  | String c (String c' r) =>
      if Ascii.eqb c "+"%char
      then (if Ascii.eqb c' "-"%char then None
            else option_map Z.of_int (NilZero.int_of_string (String c' r)))
      else option_map Z.of_int (NilZero.int_of_string s)
  | _ => option_map Z.of_int (NilZero.int_of_string s)
  end.
(* digits only (the item size of a numpy type string; leading zeros accepted) *)
Definition parse_digits (s : string) : option Z :=
  match s with
  | EmptyString => None
  | _ => option_map Z.of_uint (NilEmpty.uint_of_string s)
  end.

(* re.sub(STREAM_PIXELTYPE_REGEX, "", s) for the expression
   "nsignedint$|^signed|nt|loat": leftmost match, first alternative that
   matches; `skip` = characters of the current match still to drop *)
Fixpoint resub_pt_aux (s : string) (at_start : bool) (skip : nat) : string :=
  match s with
  | EmptyString => EmptyString
  | String c r =>
      match skip with
      | S k => resub_pt_aux r false k
      | O =>
          if String.eqb s "nsignedint" then EmptyString
          else if at_start && String.prefix "signed" s then resub_pt_aux r false 5
          else if String.prefix "nt" s then resub_pt_aux r false 1
          else if String.prefix "loat" s then resub_pt_aux r false 3
          else String c (resub_pt_aux r false 0)
      end
  end.
Definition resub_pt (s : string) : string := resub_pt_aux s true 0.
Definition PIXELTYPE_REGEX_MODELLED : string := "nsignedint$|^signed|nt|loat".

(* dictionaries in insertion order *)
Fixpoint lookup {B} (k : string) (d : list (string * B)) : option B :=
  match d with
  | [] => None
  | (k', v) :: r => if String.eqb k k' then Some v else lookup k r
  end.
Fixpoint dset {B} (k : string) (v : B) (d : list (string * B)) : list (string * B) :=
  match d with
  | [] => [(k, v)]
  | (k', v') :: r => if String.eqb k k' then (k', v) :: r else (k', v') :: dset k v r
  end.

(* ====================================================================== *)
(* 2. data types and values                                                 *)

Inductive dkind := KInt | KUInt | KFloat.
Definition dtype := (dkind * Z)%type.        (* kind, item size in bytes *)

Definition dkind_eqb (a b : dkind) : bool :=
  match a, b with KInt, KInt | KUInt, KUInt | KFloat, KFloat => true | _, _ => false end.
Definition dtype_eqb (a b : dtype) : bool := dkind_eqb (fst a) (fst b) && (snd a =? snd b).

Definition dtype_ok (d : dtype) : bool :=
  let b := snd d in
  match fst d with
  | KFloat => (b =? 2) || (b =? 4) || (b =? 8)
  | _ => (b =? 1) || (b =? 2) || (b =? 4) || (b =? 8)
  end.
(* the eleven supported numeric types *)
Definition all_dtypes : list dtype :=
  [(KInt, 1); (KInt, 2); (KInt, 4); (KInt, 8);
   (KUInt, 1); (KUInt, 2); (KUInt, 4); (KUInt, 8);
   (KFloat, 2); (KFloat, 4); (KFloat, 8)].

Definition kind_char (k : dkind) : string :=
  match k with KInt => "i" | KUInt => "u" | KFloat => "f" end.
(* re.sub("[0-9]+$", "", np.dtype(t).name) *)
Definition kind_name (k : dkind) : string :=
  match k with KInt => "int" | KUInt => "uint" | KFloat => "float" end.
Definition kind_of_char (s : string) : option dkind :=
  if String.eqb s "i" then Some KInt else if String.eqb s "u" then Some KUInt
  else if String.eqb s "f" then Some KFloat else None.

Inductive border := LE | BE.
Definition border_eqb (a b : border) : bool :=
  match a, b with LE, LE | BE, BE => true | _, _ => false end.
Definition border_char (b : border) : string := match b with LE => "<" | BE => ">" end.

(* np.dtype(<order char> + <kind> + <bytes>).type : the scalar type (the byte
   order is NOT part of it).  Only the forms the header parser can build from
   the pixel types i/u/f are modelled; everything else is None (TypeError). *)
Definition np_dtype (s : string) : option dtype :=
  match s with
  | String o (String k r) =>
      if Ascii.eqb o "<"%char || Ascii.eqb o ">"%char || Ascii.eqb o "="%char || Ascii.eqb o "|"%char
      then match kind_of_char (String k EmptyString), parse_digits r with
           | Some kd, Some b => if dtype_ok (kd, b) then Some (kd, b) else None
           | _, _ => None
           end
      else None
  | _ => None
  end.
(* np.dtype(t).str on a little-endian machine *)
Definition dtype_str (d : dtype) : string :=
  (if snd d =? 1 then "|" else "<") +++ kind_char (fst d) +++ show_Z (snd d).
(* np.dtype(s) for s a type string as above or a full name "int8".."float64" *)
Definition np_dtype_any (s : string) : option dtype :=
  match np_dtype s with
  | Some d => Some d
  | None =>
      find (fun d => String.eqb s (kind_name (fst d) +++ show_Z (8 * snd d))) all_dtypes
  end.

Definition int_lo (d : dtype) : Z :=
  match fst d with KInt => - 2 ^ (8 * snd d - 1) | _ => 0 end.
Definition int_hi (d : dtype) : Z :=
  match fst d with KInt => 2 ^ (8 * snd d - 1) - 1 | _ => 2 ^ (8 * snd d) - 1 end.
Definition in_range (d : dtype) (z : Z) : bool := (int_lo d <=? z) && (z <=? int_hi d).
Definition in_i64 (z : Z) : bool := (- 2 ^ 63 <=? z) && (z <? 2 ^ 63).

Inductive ndval (T : Type) := NInt (z : Z) | NFlt (x : T).
Arguments NInt {T}. Arguments NFlt {T}.
Inductive pval (T : Type) := PInt (z : Z) | PFlt (x : T).
Arguments PInt {T}. Arguments PFlt {T}.

(* text side of floating-point values *)
Record IoOps (T : Type) := mkIoOps {
  io_pr : T -> string;                 (* format(x): repr of the double *)
  io_rd : string -> option T;          (* float(s), None = ValueError *)
  io_prs : dtype -> T -> string;       (* str(np.floatNN(x)) *)
  io_rds : dtype -> string -> option T;(* np.floatNN(s) *)
  io_cast : Z -> T -> T;               (* rounding to the float type of that many bytes *)
  io_tol : T                           (* the xdim/ydim tolerance of from_stream *)
}.
Arguments io_pr {T}. Arguments io_rd {T}. Arguments io_prs {T}. Arguments io_rds {T}.
Arguments io_cast {T}. Arguments io_tol {T}.

Record gmeta (T : Type) := mkG {
  g_name : string; g_ncols : Z; g_nrows : Z;
  g_csz : T; g_xll : T; g_yll : T;
  g_dtype : dtype; g_nodata : ndval T; g_comment : string;
  g_parent : list (string * pval T)     (* parentgrid_* attributes, in setattr order *)
}.
Arguments mkG {T}. Arguments g_name {T}. Arguments g_ncols {T}. Arguments g_nrows {T}.
Arguments g_csz {T}. Arguments g_xll {T}. Arguments g_yll {T}. Arguments g_dtype {T}.
Arguments g_nodata {T}. Arguments g_comment {T}. Arguments g_parent {T}.

Section IO.
Context {T : Type} (N : NumOps T) (IO : IoOps T).

(* dtype(value) of the nodata setter.  None = the conversion raises
   (OverflowError / ValueError). *)
Definition conv_nodata (d : dtype) (v : ndval T) : option (ndval T) :=
  match fst d with
  | KFloat =>
      match v with
      | NInt z => Some (NFlt (io_cast IO (snd d) (nofZ N z)))
      | NFlt x => Some (NFlt (io_cast IO (snd d) x))
      end
  | _ =>
      match v with
      | NInt z => if in_range d z then Some (NInt z) else None
      | NFlt x =>
          match ntrunc N x with
          | Some z => if in_range d z then Some (NInt z) else None
          | None => None
          end
      end
  end.

(* Grid.__init__ : None = an exception (OverflowError of np.int64, the nodata
   conversion, negative dimensions in np.zeros) *)
Definition mk_grid (name : string) (ncols : Z) (nrows : option Z) (csz xll yll : T)
    (d : dtype) (nodata : ndval T) (comment : string) : option (gmeta T) :=
  let nr := match nrows with Some r => r | None => ncols end in
  if negb (in_i64 ncols && in_i64 nr) then None
  else match conv_nodata d nodata with
       | None => None
       | Some nd =>
           if (nr <? 0) || (ncols <? 0) then None
           else Some (mkG name ncols nr csz xll yll d nd comment [])
       end.

(* ====================================================================== *)
(* 3. Grid.save : header text                                               *)

Definition show_nd (v : ndval T) : string :=
  match v with NInt z => show_Z z | NFlt x => io_pr IO x end.
Definition show_p (v : pval T) : string :=
  match v with PInt z => show_Z z | PFlt x => io_pr IO x end.

(* "{0:<w} {1}\n".format(key, value) *)
Definition kv (w : Z) (k v : string) : string := ljust w k +++ " " +++ v +++ NL.

(* getattr(self, attname) printed by format() *)
Definition attr_text (m : gmeta T) (a : string) : string :=
  if String.eqb a "nrows" then show_Z (g_nrows m)
  else if String.eqb a "ncols" then show_Z (g_ncols m)
  else if String.eqb a "xllcorner" then io_pr IO (g_xll m)
  else if String.eqb a "yllcorner" then io_pr IO (g_yll m)
  else if String.eqb a "cellsize" then io_pr IO (g_csz m)
  else EmptyString.

Definition pixeltype_text (d : dtype) : string :=
  let name := kind_name (fst d) in
  if String.eqb name "int" then "signedint"
  else if String.eqb name "uint" then "unsignedint"
  else "float".

Definition border_letter (bo : border) : string := match bo with LE => "I" | BE => "M" end.

(* value written after each constant key of Grid.save.  `bo` is the byte order
   the header declares: Grid.save always writes "I" (a scalar type is native,
   its byteorder attribute is never ">"); bo = BE gives the header of a raster
   produced elsewhere in the same layout. *)
Definition key_text (bo : border) (m : gmeta T) (k : string) : string :=
  if String.eqb k "NBITS" then show_Z (snd (g_dtype m) * 8)
  else if String.eqb k "PIXELTYPE" then upper (pixeltype_text (g_dtype m))
  else if String.eqb k "BYTEORDER" then border_letter bo
  else if String.eqb k "NODATA_VALUE" then show_nd (g_nodata m)
  else if String.eqb k "NAME" then g_name m
  else if String.eqb k "COMMENT" then
    (if String.eqb (g_comment m) EmptyString then SAVE_EMPTY_COMMENT else g_comment m)
  else EmptyString.

Definition parent_lines (m : gmeta T) : list string :=
  flat_map (fun a =>
    let k := "parentgrid_" +++ a in
    match lookup k (g_parent m) with
    | Some v => [kv SAVE_PARENT_WIDTH (upper k) (show_p v)]
    | None => []
    end) SAVE_PARENT_ATTRS.

Definition render_lines_gen (keys : list string) (bo : border) (m : gmeta T) : list string :=
  map (fun a => kv SAVE_WIDTH (upper a) (attr_text m a)) SAVE_ATTRS
  ++ map (fun k => kv SAVE_WIDTH k (key_text bo m k)) keys
  ++ parent_lines m.
(* header of a raster in byte order bo *)
Definition header_lines (bo : border) := render_lines_gen SAVE_KEYS bo.
Definition header_text (bo : border) (m : gmeta T) : string :=
  String.concat EmptyString (header_lines bo m).
(* Grid.save *)
Definition render_lines := header_lines LE.
Definition render_header (m : gmeta T) : string := header_text LE m.

(* the pinned commit wrote no NODATA_VALUE line *)
Definition SAVE_KEYS_PINNED : list string := ["NBITS"; "PIXELTYPE"; "BYTEORDER"; "NAME"; "COMMENT"]%string.
Definition render_header_pinned (m : gmeta T) : string :=
  String.concat EmptyString (render_lines_gen SAVE_KEYS_PINNED LE m).

(* ====================================================================== *)
(* 4. Grid.from_stream : header parser                                      *)

Inductive cval := CText (s : string) | CInt (z : Z) | CFlt (x : T).
Definition cfg := list (string * cval).

Inductive kclass := KCText | KCInt | KCNodata | KCFloat.
(* the if/elif chain on the lower-cased key *)
Definition key_class (pname : string) : kclass :=
  if mem pname STREAM_TEXT_KEYS then KCText
  else if String.prefix "n" pname && negb (String.prefix "nodata" pname) then KCInt
  else if String.prefix "nodata" pname then KCNodata
  else if String.prefix "parentgrid_n" pname then KCInt
  else KCFloat.
(* pinned commit: no-data values went through float() *)
Definition key_class_pinned (pname : string) : kclass :=
  if mem pname STREAM_TEXT_KEYS then KCText
  else if String.prefix "n" pname && negb (String.prefix "nodata" pname) then KCInt
  else if String.prefix "parentgrid_n" pname then KCInt
  else KCFloat.

Inductive lres := LVal (v : cval) | LSkip (* ValueError: warning, field ignored *)
                | LRaise (* IndexError: no second token *).

Definition line_value (kc : string -> kclass) (toks : list string) (pname : string) : lres :=
  match kc pname with
  | KCText => LVal (CText (lower (strip (String.concat " " (tl toks)))))
  | KCInt =>
      match tl toks with
      | [] => LRaise
      | t :: _ => match parse_Z (strip t) with Some z => LVal (CInt z) | None => LSkip end
      end
  | KCNodata =>
      match tl toks with
      | [] => LRaise
      | t :: _ =>
          match parse_Z (strip t) with
          | Some z => LVal (CInt z)
          | None => match io_rd IO (strip t) with Some x => LVal (CFlt x) | None => LSkip end
          end
      end
  | KCFloat =>
      match tl toks with
      | [] => LRaise
      | t :: _ => match io_rd IO (strip t) with Some x => LVal (CFlt x) | None => LSkip end
      end
  end.

(* one iteration of the loop over the header lines: (config, parent_config) *)
Definition parse_line_gen (kc : string -> kclass) (st : cfg * cfg) (line : string) : option (cfg * cfg) :=
  let toks := tokens line in
  let pname := lower (hd EmptyString toks) in
  match line_value kc toks pname with
  | LRaise => None
  | LSkip => Some st
  | LVal v =>
      if String.prefix "parent" pname then Some (fst st, dset pname v (snd st))
      else Some (dset pname v (fst st), snd st)
  end.
Definition parse_line := parse_line_gen key_class.

Definition stream_defaults (defname : string) : cfg :=
  [("xllcorner", CFlt (nofZ N STREAM_DEF_XLL_Z)); ("yllcorner", CFlt (nofZ N STREAM_DEF_YLL_Z));
   ("cellsize", CFlt (nofZ N STREAM_DEF_CSZ_Z)); ("nodata", CInt STREAM_DEF_NODATA);
   ("nbits", CInt STREAM_DEF_NBITS); ("pixeltype", CText STREAM_DEF_PIXELTYPE);
   ("byteorder", CText STREAM_DEF_BYTEORDER); ("comment", CText STREAM_DEF_COMMENT);
   ("name", CText defname)]%string.

Definition parse_lines_gen (kc : string -> kclass) (defname : string) (lines : list string) : option (cfg * cfg) :=
  fold_left (fun st l => match st with Some s => parse_line_gen kc s l | None => None end)
            lines (Some (stream_defaults defname, [])).

Definition cval_pval (v : cval) : option (pval T) :=
  match v with CInt z => Some (PInt z) | CFlt x => Some (PFlt x) | CText _ => None end.
Definition parent_of_cfg (p : cfg) : list (string * pval T) :=
  flat_map (fun kv => match cval_pval (snd kv) with Some v => [(fst kv, v)] | None => [] end) p.

Definition get_flt (c : cfg) (k : string) : option T :=
  match lookup k c with Some (CFlt x) => Some x | _ => None end.
Definition get_int (c : cfg) (k : string) : option Z :=
  match lookup k c with Some (CInt z) => Some z | _ => None end.
Definition get_text (c : cfg) (k : string) : option string :=
  match lookup k c with Some (CText s) => Some s | _ => None end.
Definition has_key (c : cfg) (k : string) : bool :=
  match lookup k c with Some _ => true | None => false end.

(* after the loop: byte order, dtype, xdim/ydim, ulxmap/ulymap, nodata_value,
   constructor.  None = an exception is raised. *)
Definition finish_stream (st : cfg * cfg) : option (gmeta T * border) :=
  let c := fst st in
  match get_text c "byteorder" with
  | None => None
  | Some b =>
    match (if String.eqb b "m" then Some BE else if String.eqb b "i" then Some LE else None) with
    | None => None                                     (* ValueError: byte order not recognised *)
    | Some bo =>
      match get_text c "pixeltype", get_int c "nbits" with
      | Some pt, Some nbits =>
        match np_dtype (border_char bo +++ resub_pt pt +++ show_Z (nbits / 8)) with
        | None => None                                 (* TypeError: data type not understood *)
        | Some d =>
          (* xdim / ydim *)
          let c1 :=
            match lookup "xdim" c with
            | None => Some c
            | Some xd =>
                let c' := dset "cellsize" xd c in
                match lookup "ydim" c' with
                | None => Some c'
                | Some yd =>
                    match xd, yd with
                    | CFlt x, CFlt y =>
                        if nltb N (io_tol IO) (nabs N (nsub N y x)) then None else Some c'
                    | _, _ => None
                    end
                end
            end in
          match c1 with
          | None => None
          | Some c1 =>
            (* ulxmap / ulymap *)
            let c2 :=
              match lookup "ulxmap" c1 with
              | None => Some c1
              | Some ux =>
                  let c' := dset "xllcorner" ux c1 in
                  match get_flt c' "ulymap", get_flt c' "cellsize", get_int c' "nrows" with
                  | Some uy, Some cs, Some nr =>
                      Some (dset "yllcorner" (CFlt (nsub N uy (nmul N cs (nofZ N nr)))) c')
                  | _, _, _ => None                    (* KeyError *)
                  end
              end in
            match c2 with
            | None => None
            | Some c2 =>
              let c3 := match lookup "nodata_value" c2 with
                        | Some v => dset "nodata" v c2
                        | None => c2
                        end in
              match get_text c3 "name", get_int c3 "ncols", get_flt c3 "cellsize",
                    get_flt c3 "xllcorner", get_flt c3 "yllcorner", get_text c3 "comment" with
              | Some name, Some ncols, Some csz, Some xll, Some yll, Some comment =>
                  let nodata := match lookup "nodata" c3 with
                                | Some (CInt z) => Some (NInt z)
                                | Some (CFlt x) => Some (NFlt x)
                                | _ => None
                                end in
                  match nodata with
                  | None => None
                  | Some nd =>
                    match mk_grid name ncols (get_int c3 "nrows") csz xll yll d nd comment with
                    | None => None
                    | Some g =>
                        Some (mkG (g_name g) (g_ncols g) (g_nrows g) (g_csz g) (g_xll g) (g_yll g)
                                  (g_dtype g) (g_nodata g) (g_comment g) (parent_of_cfg (snd st)), bo)
                    end
                  end
              | _, _, _, _, _, _ => None                (* TypeError: ncols missing *)
              end
            end
          end
        end
      | _, _ => None
      end
    end
  end.

Definition from_stream_gen (kc : string -> kclass) (defname text : string) : option (gmeta T * border) :=
  match parse_lines_gen kc defname (readlines text) with
  | None => None
  | Some st => finish_stream st
  end.
(* Grid.from_stream(header) without data *)
Definition from_stream_header := from_stream_gen key_class.
Definition from_stream_header_pinned := from_stream_gen key_class_pinned.

End IO.

(* ====================================================================== *)
(* 5. raw data: ndarray.tofile / numpy.fromfile on bit patterns             *)

(* little-endian bytes of an n-byte pattern *)
Fixpoint enc_le (n : nat) (v : Z) : list Z :=
  match n with
  | O => []
  | S k => (v mod 256) :: enc_le k (v / 256)
  end.
Definition enc (bo : border) (n : nat) (v : Z) : list Z :=
  match bo with LE => enc_le n v | BE => List.rev (enc_le n v) end.
Fixpoint val_le (bytes : list Z) : Z :=
  match bytes with
  | [] => 0
  | b :: r => b + 256 * val_le r
  end.
Definition val_of (bo : border) (bytes : list Z) : Z :=
  match bo with LE => val_le bytes | BE => val_le (List.rev bytes) end.

(* items of n >= 1 bytes; an incomplete last item is dropped (fromfile) *)
Fixpoint decode_aux (n : nat) (bo : border) (cur : list Z) (k : nat) (bytes : list Z) : list Z :=
  match bytes with
  | [] => []
  | b :: r =>
      match k with
      | O => val_of bo (cur ++ [b]) :: decode_aux n bo [] (n - 1) r
      | S k' => decode_aux n bo (cur ++ [b]) k' r
      end
  end.
Definition decode (n : nat) (bo : border) (bytes : list Z) : list Z :=
  match n with O => [] | S k => decode_aux n bo [] k bytes end.

(* self._data.tofile(filename): native (little-endian) order *)
Definition tofile (n : nat) (vals : list Z) : list Z := flat_map (enc LE n) vals.
Definition tofile_bo (bo : border) (n : nat) (vals : list Z) : list Z := flat_map (enc bo n) vals.

(* Grid.load after the byte-order repair; None = ValueError (wrong number of items).
   _clipdata with the default (infinite) limits does not touch the values. *)
Definition load {T} (m : gmeta T) (bo : border) (bytes : list Z) : option (list Z) :=
  let vals := decode (Z.to_nat (snd (g_dtype m))) bo bytes in
  if Z.of_nat (List.length vals) =? g_nrows m * g_ncols m then Some vals else None.
(* pinned commit: the byte order of the header was dropped with `.type` *)
Definition load_pinned_order {T} (m : gmeta T) (bo : border) (bytes : list Z) : option (list Z) :=
  load m LE bytes.

(* pinned commit: np.clip(x, -inf, inf) computed 64-bit integers in binary64.
   `via_f64 d v` = the value an integer cell v of type d comes back with
   (None: the conversion back is out of range, undefined in C). *)
Definition via_f64 {T} (N : NumOps T) (d : dtype) (v : Z) : option Z :=
  match fst d with
  | KFloat => Some v
  | _ => match ntrunc N (nofZ N v) with
         | Some w => if in_range d w then Some w else None
         | None => None
         end
  end.

(* Grid.from_stream(header, data) *)
Definition from_stream {T} (N : NumOps T) (IO : IoOps T) (defname text : string) (data : option (list Z))
    : option (gmeta T * option (list Z)) :=
  match from_stream_header N IO defname text with
  | None => None
  | Some (m, bo) =>
      match data with
      | None => Some (m, None)
      | Some bytes => match load m bo bytes with
                      | Some v => Some (m, Some v)
                      | None => None
                      end
      end
  end.

(* ====================================================================== *)
(* 6. dictionaries                                                          *)

Inductive dval (T : Type) :=
| DStr (s : string) | DInt (z : Z) | DFlt (x : T) | DNone | DZs (l : list Z)
| DDict (d : list (string * dval T)).
Arguments DStr {T}. Arguments DInt {T}. Arguments DFlt {T}. Arguments DNone {T}.
Arguments DZs {T}. Arguments DDict {T}.
Definition dict (T : Type) := list (string * dval T).

Section Dict.
Context {T : Type} (N : NumOps T) (IO : IoOps T).

(* str(self.nodata) *)
Definition str_nd (d : dtype) (v : ndval T) : string :=
  match v with NInt z => show_Z z | NFlt x => io_prs IO d x end.

Definition dict_field (m : gmeta T) (k : string) : dval T :=
  if String.eqb k "name" then DStr (g_name m)
  else if String.eqb k "ncols" then DInt (g_ncols m)
  else if String.eqb k "nrows" then DInt (g_nrows m)
  else if String.eqb k "cellsize" then DFlt (g_csz m)
  else if String.eqb k "xllcorner" then DFlt (g_xll m)
  else if String.eqb k "yllcorner" then DFlt (g_yll m)
  else if String.eqb k "dtype" then DStr (dtype_str (g_dtype m))
  else if String.eqb k "nodata" then DStr (str_nd (g_dtype m) (g_nodata m))
  else if String.eqb k "comment" then DStr (g_comment m)
  else DNone.

Definition pval_dval (v : pval T) : dval T :=
  match v with PInt z => DInt z | PFlt x => DFlt x end.

Definition to_dict (m : gmeta T) : dict T :=
  map (fun k => (k, dict_field m k)) DICT_KEYS
  ++ flat_map (fun a =>
       let k := "parentgrid_" +++ a in
       match lookup k (g_parent m) with
       | Some v => [(k, pval_dval v)]
       | None => []
       end) DICT_PARENT_ATTRS.

(* constructor arguments given as dictionary values *)
Definition dnum (v : dval T) : option T :=
  match v with DFlt x => Some x | DInt z => Some (nofZ N z) | _ => None end.
Definition opt_key (d : dict T) (k : string) : option (dval T) :=
  if mem k DICT_OPTIONAL then lookup k d else None.

(* dtype(value) for a no-data value given as a string *)
Definition nodata_of_str (dt : dtype) (s : string) : option (ndval T) :=
  match fst dt with
  | KFloat => match io_rds IO dt s with Some x => Some (NFlt x) | None => None end
  | _ => match parse_Z (strip s) with
         | Some z => if in_range dt z then Some (NInt z) else None
         | None => None
         end
  end.

Definition ctor_default_dtype : dtype :=
  ((if CTOR_DTYPE_KIND =? 0 then KInt else if CTOR_DTYPE_KIND =? 1 then KUInt else KFloat),
   CTOR_DTYPE_BYTES).

(* Grid.from_dict.  None = an exception (KeyError, conversion error) or a value
   of a type the model does not cover. *)
Definition from_dict (d : dict T) : option (gmeta T) :=
  match lookup "name" d, lookup "ncols" d with
  | Some (DStr name), Some (DInt ncols) =>
      let nrows := match opt_key d "nrows" with Some (DInt r) => Some (Some r) | None => Some None | _ => None end in
      let num (k : string) (dflt : Z) :=
        match opt_key d k with Some v => dnum v | None => Some (nofZ N dflt) end in
      let dt := match opt_key d "dtype" with
                | Some (DStr s) => np_dtype_any s
                | None => Some ctor_default_dtype
                | _ => None
                end in
      let comment := match opt_key d "comment" with
                     | Some (DStr s) => Some s | None => Some CTOR_COMMENT | _ => None end in
      match nrows, num "cellsize" CTOR_CSZ_Z, num "xllcorner" CTOR_XLL_Z, num "yllcorner" CTOR_YLL_Z,
            dt, comment with
      | Some nrows, Some csz, Some xll, Some yll, Some dt, Some comment =>
          match opt_key d "nodata" with
          | Some (DStr s) =>
              match nodata_of_str dt s with
              | Some nd => mk_grid N IO name ncols nrows csz xll yll dt nd comment
              | None => None
              end
          | Some (DInt z) => mk_grid N IO name ncols nrows csz xll yll dt (NInt z) comment
          | Some (DFlt x) => mk_grid N IO name ncols nrows csz xll yll dt (NFlt x) comment
          | None => mk_grid N IO name ncols nrows csz xll yll dt (NInt CTOR_NODATA_Z) comment
          | _ => None
          end
      | _, _, _, _, _, _ => None
      end
  | _, _ => None
  end.

(* ---------------- catchments ---------------- *)
Record catch := mkC {
  c_name : string; c_outlet : option Z; c_inlets : option (list Z);
  c_area : option (list Z); c_filled : option (list Z); c_flow : gmeta T }.

(* Catchment.to_dict: None = ValueError (area not delineated) *)
Definition cat_to_dict (c : catch) : option (dict T) :=
  match c_area c, c_filled c with
  | Some a, Some f =>
      Some [("name", DStr (c_name c));
            ("idxcell_outlet", match c_outlet c with Some z => DInt z | None => DNone end);
            ("idxinlets", match c_inlets c with Some l => DZs l | None => DNone end);
            ("idxcells_area", DZs a);
            ("idxcells_area_filled", DZs f);
            ("flowdir", DDict (to_dict (c_flow c)))]%string
  | _, _ => None
  end.

(* Catchment.__init__ clones the flow direction grid as int64: the data type
   changes, the no-data value keeps the scalar it had *)
Definition as_int64 (m : gmeta T) : gmeta T :=
  mkG (g_name m) (g_ncols m) (g_nrows m) (g_csz m) (g_xll m) (g_yll m) (KInt, 8)
      (g_nodata m) (g_comment m) (g_parent m).

Definition cat_from_dict_gen (keep_inlets : bool) (d : dict T) : option catch :=
  match lookup "flowdir" d, lookup "name" d, lookup "idxcell_outlet" d, lookup "idxinlets" d,
        lookup "idxcells_area" d, lookup "idxcells_area_filled" d with
  | Some (DDict fd), Some (DStr name), Some o, Some i, Some (DZs a), Some (DZs f) =>
      match from_dict fd with
      | None => None
      | Some flow =>
          let outlet := match o with DInt z => Some (Some z) | DNone => Some None | _ => None end in
          let inlets := match i with DZs l => Some (Some l) | DNone => Some None | _ => None end in
          match outlet, inlets with
          | Some o, Some i =>
              Some (mkC name o (if keep_inlets then i else None) (Some a) (Some f) (as_int64 flow))
          | _, _ => None
          end
      end
  | _, _, _, _, _, _ => None
  end.
Definition cat_from_dict := cat_from_dict_gen true.
(* pinned commit: the inlets were stored under a misspelt attribute *)
Definition cat_from_dict_pinned := cat_from_dict_gen false.

End Dict.
Arguments mkC {T}. Arguments c_name {T}. Arguments c_outlet {T}. Arguments c_inlets {T}.
Arguments c_area {T}. Arguments c_filled {T}. Arguments c_flow {T}.

(* ====================================================================== *)
(* 7. Grid.clip                                                             *)

Section Clip.
Context {T : Type} (N : NumOps T) (IO : IoOps T).

Definition ntwo : T := nadd N (n1 N) (n1 N).

Fixpoint zrange (start : Z) (len : nat) : list Z :=
  match len with O => [] | S l => start :: zrange (start + 1) l end.

(* self._data[row0:row1+1, col0:col1+1] in row-major order *)
Definition window (ncols : Z) (data : list Z) (row0 nrows' col0 ncols' : Z) : list Z :=
  flat_map (fun r => map (fun c => zn data (r * ncols + c) 0) (zrange col0 (Z.to_nat ncols')))
           (zrange row0 (Z.to_nat nrows')).

Record clipres := mkClip {
  k_meta : gmeta T; k_data : list Z;
  k_row0 : Z; k_row1 : Z; k_col0 : Z; k_col1 : Z }.

(* None = a corner maps to no cell (outside the extent: not modelled, the
   property is about corners inside), or the box is reversed *)
Definition clip (m : gmeta T) (data : list Z) (xll yll xur yur : T) : option clipres :=
  let nr := g_nrows m in
  let nc := g_ncols m in
  let i0 := coord2cell N nr nc (g_xll m) (g_yll m) (g_csz m) (xll, yll) in
  let i1 := coord2cell N nr nc (g_xll m) (g_yll m) (g_csz m) (xur, yur) in
  if (i0 <? 0) || (i1 <? 0) then None
  else
    let rc0 := cell2rowcol nr nc i0 in
    let rc1 := cell2rowcol nr nc i1 in
    let nrows' := fst rc0 - fst rc1 + 1 in
    let ncols' := snd rc1 - snd rc0 + 1 in
    if (nrows' <? 1) || (ncols' <? 1) then None
    else
      let xy := cell2coord N nr nc (g_xll m) (g_yll m) (g_csz m) i0 in
      let xllg := nsub N (fst xy) (ndiv N (g_csz m) ntwo) in
      let yllg := nsub N (snd xy) (ndiv N (g_csz m) ntwo) in
      match mk_grid N IO (g_name m +++ "_clip") ncols' (Some nrows') (g_csz m) xllg yllg
                    (g_dtype m) (g_nodata m) CTOR_COMMENT with
      | None => None
      | Some g =>
          let row0 := fst rc1 in let row1 := fst rc0 in
          let col0 := snd rc0 in let col1 := snd rc1 in
          let comment := ("Clip of grid " +++ g_name m +++ " on the box [" +++ io_pr IO xll +++ ", "
                          +++ io_pr IO yll +++ ", " +++ io_pr IO xur +++ ", " +++ io_pr IO yur +++ "].")%string in
          let parent := [("parentgrid_ncols", PInt nc); ("parentgrid_nrows", PInt nr);
                         ("parentgrid_cellsize", PFlt (g_csz m));
                         ("parentgrid_xllcorner", PFlt (g_xll m)); ("parentgrid_yllcorner", PFlt (g_yll m));
                         ("parentgrid_rows_start", PInt row0); ("parentgrid_rows_end", PInt row1);
                         ("parentgrid_cols_start", PInt col0); ("parentgrid_cols_end", PInt col1)]%string in
          Some (mkClip (mkG (g_name g) (g_ncols g) (g_nrows g) (g_csz g) (g_xll g) (g_yll g)
                            (g_dtype g) (g_nodata g) comment parent)
                       (window nc data row0 nrows' col0 ncols') row0 row1 col0 col1)
      end.

End Clip.
Arguments mkClip {T}. Arguments k_meta {T}. Arguments k_data {T}. Arguments k_row0 {T}.
Arguments k_row1 {T}. Arguments k_col0 {T}. Arguments k_col1 {T}.

(* ====================================================================== *)
(* 8. correspondence glue (binary64)                                        *)
From Coq Require Import PrimFloat FloatOps SpecFloat.

(* same binary64 datum (the sign of zero matters for the printed token) *)
Definition f_ident (a b : float) : bool :=
  match Prim2SF a, Prim2SF b with
  | S754_zero s1, S754_zero s2 => Bool.eqb s1 s2
  | S754_infinity s1, S754_infinity s2 => Bool.eqb s1 s2
  | S754_nan, S754_nan => true
  | S754_finite s1 m1 e1, S754_finite s2 m2 e2 => Bool.eqb s1 s2 && Pos.eqb m1 m2 && Z.eqb e1 e2
  | _, _ => false
  end.

(* rounding of a binary64 to binary32 / binary16 (to nearest, ties to even) *)
Definition fcast_gen (prec emax : Z) (x : float) : float :=
  match Prim2SF x with
  | S754_finite s m e => SF2Prim (binary_normalize prec emax (if s then Zneg m else Zpos m) e s)
  | _ => x
  end.
Definition fcast (bytes : Z) (x : float) : float :=
  if bytes =? 4 then fcast_gen 24 128 x
  else if bytes =? 2 then fcast_gen 11 16 x
  else x.

Fixpoint tab_pr (t : list (float * string)) (x : float) : string :=
  match t with
  | [] => "?"
  | (y, s) :: r => if f_ident x y then s else tab_pr r x
  end.
Fixpoint tab_rd (t : list (string * float)) (s : string) : option float :=
  match t with
  | [] => None
  | (k, x) :: r => if String.eqb s k then Some x else tab_rd r s
  end.

(* the text side of floats is given by tables computed by Python on the tokens
   of the case (format()/float(); str()/np.floatNN() for the dictionary) *)
Definition tabIO (prt : list (float * string)) (rdt : list (string * float)) : IoOps float :=
  {| io_pr := tab_pr prt; io_rd := tab_rd rdt;
     io_prs := fun _ => tab_pr prt; io_rds := fun d s => option_map (fcast (snd d)) (tab_rd rdt s);
     io_cast := fcast; io_tol := STREAM_YDIM_TOL_F |}.

(* characters of a string given by their codes (case files) *)
Fixpoint s_of (l : list Z) : string :=
  match l with
  | [] => EmptyString
  | c :: r => String (ascii_of_N (Z.to_N c)) (s_of r)
  end.

Definition nd_same (a b : ndval float) : bool :=
  match a, b with
  | NInt x, NInt y => x =? y
  | NFlt x, NFlt y => f_same x y
  | _, _ => false
  end.
Definition pv_same (a b : pval float) : bool :=
  match a, b with
  | PInt x, PInt y => x =? y
  | PFlt x, PFlt y => f_same x y
  | _, _ => false
  end.
Definition par_same (a b : list (string * pval float)) : bool :=
  list_same (fun p q => String.eqb (fst p) (fst q) && pv_same (snd p) (snd q)) a b.
Definition meta_same (a b : gmeta float) : bool :=
  String.eqb (g_name a) (g_name b) && (g_ncols a =? g_ncols b) && (g_nrows a =? g_nrows b)
  && f_same (g_csz a) (g_csz b) && f_same (g_xll a) (g_xll b) && f_same (g_yll a) (g_yll b)
  && dtype_eqb (g_dtype a) (g_dtype b) && nd_same (g_nodata a) (g_nodata b)
  && String.eqb (g_comment a) (g_comment b) && par_same (g_parent a) (g_parent b).

Fixpoint dval_same (fuel : nat) (a b : dval float) : bool :=
  match fuel with
  | O => false
  | S f =>
      match a, b with
      | DStr x, DStr y => String.eqb x y
      | DInt x, DInt y => x =? y
      | DFlt x, DFlt y => f_same x y
      | DNone, DNone => true
      | DZs x, DZs y => list_same Z.eqb x y
      | DDict x, DDict y =>
          list_same (fun p q => String.eqb (fst p) (fst q) && dval_same f (snd p) (snd q)) x y
      | _, _ => false
      end
  end.
Definition dict_same (a b : dict float) : bool :=
  list_same (fun p q => String.eqb (fst p) (fst q) && dval_same 4 (snd p) (snd q)) a b.

Definition olist_same (a b : option (list Z)) : bool :=
  match a, b with
  | Some x, Some y => list_same Z.eqb x y
  | None, None => true
  | _, _ => false
  end.
Definition oz_same (a b : option Z) : bool :=
  match a, b with Some x, Some y => x =? y | None, None => true | _, _ => false end.

Definition catch_same (a b : catch (T := float)) : bool :=
  String.eqb (c_name a) (c_name b) && oz_same (c_outlet a) (c_outlet b)
  && olist_same (c_inlets a) (c_inlets b) && olist_same (c_area a) (c_area b)
  && olist_same (c_filled a) (c_filled b) && meta_same (c_flow a) (c_flow b).

Inductive iocase :=
(* Grid.save: header text written by the implementation *)
| IOSave (m : gmeta float) (prt : list (float * string)) (text : string)
(* Grid.from_stream(header[, data]): attributes + byte order flag + cell patterns *)
| IOLoad (defname text : string) (rdt : list (string * float)) (data : option (list Z))
         (expect : option (gmeta float * option (list Z)))
(* ndarray.tofile of the patterns of a grid of item size n *)
| IOTofile (n : Z) (vals : list Z) (bytes : list Z)
(* re.sub of the pixel type expression *)
| IOResub (s expect : string)
| IOToDict (m : gmeta float) (prt : list (float * string)) (expect : dict float)
| IOFromDict (d : dict float) (rdt : list (string * float)) (expect : option (gmeta float))
| IOClip (m : gmeta float) (data : list Z) (xll yll xur yur : float) (prt : list (float * string))
         (expect : option (gmeta float * list Z))
| IOCatTo (c : catch (T := float)) (prt : list (float * string)) (expect : option (dict float))
| IOCatFrom (d : dict float) (rdt : list (string * float)) (expect : option (catch (T := float))).

Definition io_ok (c : iocase) : bool :=
  match c with
  | IOSave m prt text => String.eqb (render_header (tabIO prt []) m) text
  | IOLoad defname text rdt data e =>
      match from_stream F64 (tabIO [] rdt) defname text data, e with
      | Some (m, v), Some (m', v') => meta_same m m' && olist_same v v'
      | None, None => true
      | _, _ => false
      end
  | IOTofile n vals bytes => list_same Z.eqb (tofile (Z.to_nat n) vals) bytes
  | IOResub s e => String.eqb (resub_pt s) e
  | IOToDict m prt e => dict_same (to_dict (tabIO prt []) m) e
  | IOFromDict d rdt e =>
      match from_dict F64 (tabIO [] rdt) d, e with
      | Some m, Some m' => meta_same m m'
      | None, None => true
      | _, _ => false
      end
  | IOClip m data xll yll xur yur prt e =>
      match clip F64 (tabIO prt []) m data xll yll xur yur, e with
      | Some r, Some (m', d') => meta_same (k_meta r) m' && list_same Z.eqb (k_data r) d'
      | None, None => true
      | _, _ => false
      end
  | IOCatTo c prt e =>
      match cat_to_dict (tabIO prt []) c, e with
      | Some d, Some d' => dict_same d d'
      | None, None => true
      | _, _ => false
      end
  | IOCatFrom d rdt e =>
      match cat_from_dict F64 (tabIO [] rdt) d, e with
      | Some c, Some c' => catch_same c c'
      | None, None => true
      | _, _ => false
      end
  end.
