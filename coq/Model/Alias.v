(* C18 - provenance (view-or-copy) semantics of the conversion idioms the Python
   wrappers put in front of the C kernels, and the wrappers' pipelines.

   Source transcribed (line numbers of the pinned tree, files under
   src/hydrodiy/): stat/metrics.py 29-59 (__check_ensemble_data), 130-176
   (crps), 179-216 (anderson_darling_test), 252-304 (alpha), 497-554 (dscore);
   stat/sutils.py 285-332 (pareto_front); stat/armodels.py 12-76, 79-146;
   data/dutils.py 150-204 (aggregate), 207-250 (flathomogen), 434-510 (var2h);
   data/qualitycontrol.py 71-126 (islinear); data/signatures.py 20-70
   (eckhardt), 140-167 (goue); gis/grid.py 604-787 (Grid.coord2cell,
   cell2coord, cell2rowcol, neighbours, slice), 952-981 (cells_inside_polygon),
   1147-1178 (upstream, downstream), 1180-1246 (delineate_area), 1248-1309
   (delineate_boundary), 1311-1331 (compute_flowpathlengths), 1333-1423
   (intersect), 1528-1579 (delineate_river), 1582-1637 (accumulate), 1640-1677
   (voronoi), 1741-1765 (slope); gis/gutils.py 8-69 (points_inside_polygon).

   What comes from the working tree (Gen/ConstsC18.v, regenerated on every
   run): which pointer parameters each kernel stores through, the buffer
   contract (element type, ndim, C-contiguous) of every Cython entry point,
   and the list of kernel call sites of the anchored Python files.

   No proofs in this file. *)
From Coq Require Import ZArith List Bool String.
From Hy Require Import Base.Num Gen.ConstsC18.
Import ListNotations.
Open Scope string_scope.

(* ------------------------------------------------------------------ *)
(* input classes                                                        *)

Inductive container := CNd | CSeries | CFrame | CList | CScalar | CGrid.
Inductive dty := DF64 | DF32 | DI64 | DI32 | DBool.
Inductive ndim := N0 | N1 | N2.
(* LC: C-contiguous; LF: Fortran order (a transposed C array, DataFrame.values);
   LS: strided view, neither *)
Inductive layout := LC | LF | LS.

Record desc := mkd { d_cont : container; d_dt : dty; d_nd : ndim; d_lay : layout }.

Definition cont_eqb (a b : container) : bool :=
  match a, b with
  | CNd, CNd | CSeries, CSeries | CFrame, CFrame | CList, CList
  | CScalar, CScalar | CGrid, CGrid => true
  | _, _ => false
  end.
Definition dty_eqb (a b : dty) : bool :=
  match a, b with
  | DF64, DF64 | DF32, DF32 | DI64, DI64 | DI32, DI32 | DBool, DBool => true
  | _, _ => false
  end.
Definition ndim_eqb (a b : ndim) : bool :=
  match a, b with N0, N0 | N1, N1 | N2, N2 => true | _, _ => false end.
Definition lay_eqb (a b : layout) : bool :=
  match a, b with LC, LC | LF, LF | LS, LS => true | _, _ => false end.

Definition all_cont := [CNd; CSeries; CFrame; CList; CScalar; CGrid].
Definition all_dty := [DF64; DF32; DI64; DI32; DBool].
Definition all_ndim := [N0; N1; N2].
Definition all_lay := [LC; LF; LS].

(* every value of [desc] (a finite type: 6*5*3*3 = 270 classes) *)
Definition all_desc : list desc :=
  flat_map (fun c => flat_map (fun t => flat_map (fun n => map (fun l => mkd c t n l) all_lay)
                                                 all_ndim) all_dty) all_cont.

(* ------------------------------------------------------------------ *)
(* idioms                                                               *)

Inductive op :=
| OAtleast1d | OAtleast2d            (* np.atleast_1d / np.atleast_2d *)
| OAstype (t : dty)                  (* x.astype(t) *)
| ONpArray                           (* np.array(x) *)
| OSqueeze                           (* x.squeeze() (shapes without unit axes) *)
| OGuard1d                           (* `if x.ndim > 1: raise` *)
| OMask                              (* x[boolean mask] / x[mask, :] *)
| OAsContig                          (* np.ascontiguousarray(x); also `if not C_CONTIGUOUS: ascontiguousarray` *)
| OAsContigDt (t : dty)              (* np.ascontiguousarray(x, dtype=t) *)
| OValues                            (* x.values *)
| OId                                (* handed over as it is *)
| OArith                             (* 0.*x and other arithmetic *)
| OSlice                             (* x[1:] *)
| OTranspose                         (* x.T *)
| OCopy                              (* x.copy() *)
| ONeedAttr                          (* x.shape / x.ndim read before anything else *)
| OFrameOnly                         (* x.columns read first: only a DataFrame gets past *)
| ONewArray                          (* np.roll(x, k, axis=0): a numpy function returning a new array *)
| OGridData                          (* grid.data *)
| OGridSetDtype (t : dty)            (* grid.dtype = t : the grid re-allocates its own buffer *)
| OAttrCells.                        (* catchment._idxcells_area *)

(* order='K' of a copy: a strided view is compacted in C order, Fortran order is kept *)
Definition klay (l : layout) : layout := match l with LS => LC | x => x end.
Definition nd_max1 (n : ndim) : ndim := match n with N0 => N1 | x => x end.
Definition arith_dt (t : dty) : dty := match t with DF32 => DF32 | _ => DF64 end.

(* np.asanyarray: (array descriptor, shares the memory of the object) *)
Definition as_array (d : desc) : option (desc * bool) :=
  match d_cont d with
  | CNd => Some (d, true)
  | CSeries => Some (mkd CNd (d_dt d) N1 LC, true)
  | CFrame => Some (mkd CNd (d_dt d) N2 LF, true)
  | CList => Some (mkd CNd (d_dt d) (d_nd d) LC, false)
  | CScalar => Some (mkd CNd (d_dt d) N0 LC, false)
  | CGrid => None
  end.

(* [apply_op o d = Some (d', v)]: the idiom succeeds on an object of class [d],
   its result has class [d'] and is a view of the operand's memory iff [v];
   [None]: the idiom raises. *)
Definition apply_op (o : op) (d : desc) : option (desc * bool) :=
  match o with
  | OAtleast1d =>
      match as_array d with
      | Some (a, v) => Some (mkd CNd (d_dt a) (nd_max1 (d_nd a)) (d_lay a), v)
      | None => None
      end
  | OAtleast2d =>
      match as_array d with
      | Some (a, v) =>
          Some (mkd CNd (d_dt a) N2 (match d_nd a with N0 => LC | _ => d_lay a end), v)
      | None => None
      end
  | OAstype t =>
      match d_cont d with
      | CNd => Some (mkd CNd t (d_nd d) (klay (d_lay d)), false)
      | CSeries | CFrame => Some (mkd (d_cont d) t (d_nd d) (d_lay d), false)
      | _ => None
      end
  | ONpArray =>
      match as_array d with
      | Some (a, _) => Some (mkd CNd (d_dt a) (d_nd a) (klay (d_lay a)), false)
      | None => None
      end
  | OSqueeze =>
      match d_cont d with
      | CNd | CSeries | CFrame => Some (d, true)
      | _ => None
      end
  | OGuard1d => match d_nd d with N1 => Some (d, true) | _ => None end
  | OMask =>
      match d_cont d, d_nd d with
      | CNd, N1 | CNd, N2 => Some (mkd CNd (d_dt d) (d_nd d) LC, false)
      | CSeries, _ => Some (d, false)
      | _, _ => None
      end
  | OAsContig =>
      match as_array d with
      | Some (a, v) =>
          if lay_eqb (d_lay a) LC && negb (ndim_eqb (d_nd a) N0) then Some (a, v)
          else Some (mkd CNd (d_dt a) (nd_max1 (d_nd a)) LC, false)
      | None => None
      end
  | OAsContigDt t =>
      match as_array d with
      | Some (a, v) =>
          if dty_eqb (d_dt a) t && lay_eqb (d_lay a) LC && negb (ndim_eqb (d_nd a) N0)
          then Some (a, v)
          else Some (mkd CNd t (nd_max1 (d_nd a)) LC, false)
      | None => None
      end
  | OValues =>
      match d_cont d with
      | CSeries => Some (mkd CNd (d_dt d) N1 LC, true)
      | CFrame => Some (mkd CNd (d_dt d) N2 LF, true)
      | _ => None
      end
  | OId => Some (d, true)
  | OArith =>
      match d_cont d with
      | CNd => Some (mkd CNd (arith_dt (d_dt d)) (d_nd d) (klay (d_lay d)), false)
      | CSeries | CFrame => Some (mkd (d_cont d) (arith_dt (d_dt d)) (d_nd d) (d_lay d), false)
      | CScalar => Some (mkd CScalar DF64 N0 LC, false)
      | _ => None
      end
  | OSlice =>
      match d_cont d, d_nd d with
      | CNd, N0 => None
      | CNd, N1 => Some (d, true)
      | CNd, N2 => Some (mkd CNd (d_dt d) N2 (match d_lay d with LC => LC | _ => LS end), true)
      | CSeries, _ | CFrame, _ => Some (d, true)
      | CList, _ => Some (d, false)
      | _, _ => None
      end
  | OTranspose =>
      match d_cont d with
      | CNd => Some (mkd CNd (d_dt d) (d_nd d)
                       (match d_nd d, d_lay d with N2, LC => LF | N2, LF => LC | _, l => l end), true)
      | CSeries => Some (d, true)
      | CFrame => Some (d, false)
      | _ => None
      end
  | OCopy =>
      match d_cont d with
      | CNd => Some (mkd CNd (d_dt d) (d_nd d) LC, false)
      | CSeries | CFrame | CList => Some (d, false)
      | _ => None
      end
  | ONeedAttr =>
      match d_cont d with
      | CNd | CSeries | CFrame => Some (d, true)
      | _ => None
      end
  | OFrameOnly => match d_cont d with CFrame => Some (d, true) | _ => None end
  | ONewArray =>
      match as_array d with
      | Some (a, _) =>
          match d_nd a with
          | N0 => None
          | _ => Some (mkd CNd (d_dt a) (d_nd a) (klay (d_lay a)), false)
          end
      | None => None
      end
  | OGridData =>
      match d_cont d with
      | CGrid => Some (mkd CNd (d_dt d) N2 LC, true)
      | _ => None
      end
  | OGridSetDtype t =>
      match d_cont d with
      | CGrid => Some (mkd CGrid t N2 LC, true)
      | _ => None
      end
  | OAttrCells =>
      match d_cont d with
      | CGrid => Some (mkd CNd DI64 N1 LC, true)
      | _ => None
      end
  end.

(* ------------------------------------------------------------------ *)
(* provenance                                                           *)

Inductive prov :=
| PArg (i : nat)      (* memory of the caller's i-th array / grid argument *)
| PGrid               (* cell values of the grid the method is called on *)
| PState              (* derived state of the object (cell lists of a Catchment) *)
| PGlobal             (* a module constant (FLOWDIRCODE) *)
| PFresh.             (* allocated by the wrapper *)

Definition prov_eqb (a b : prov) : bool :=
  match a, b with
  | PArg i, PArg j => Nat.eqb i j
  | PGrid, PGrid | PState, PState | PGlobal, PGlobal | PFresh, PFresh => true
  | _, _ => false
  end.

(* a kernel may store only into memory the wrapper allocated, or into the
   object's own derived state *)
Definition writable (p : prov) : bool :=
  match p with PFresh | PState => true | _ => false end.

Fixpoint run_ops (ops : list op) (d : desc) (p : prov) : option (desc * prov) :=
  match ops with
  | [] => Some (d, p)
  | o :: r =>
      match apply_op o d with
      | None => None
      | Some (d', v) => run_ops r d' (if v then p else PFresh)
      end
  end.

(* ------------------------------------------------------------------ *)
(* wrappers                                                             *)

Inductive src :=
| SArg (i : nat) (ops : list op)        (* derived from the i-th argument *)
| SSelf (ops : list op)                 (* derived from the grid of the object *)
| SLike (i : nat) (ops : list op)       (* zeros_like / clone / 0.*x of such a value: fresh, same class *)
| SState (d : desc)                     (* a state array of the object *)
| SGlobal (d : desc)                    (* module constant *)
| SAlloc (d : desc).                    (* np.zeros(...) and other fresh intermediates *)

Record kcall := mkcall { k_entry : string; k_params : list (string * src) }.
Record wrapper := mkw { w_site : string; w_calls : list kcall }.

Definition eval_src (s : src) (args : list desc) (self : option desc) : option (desc * prov) :=
  match s with
  | SArg i ops => match nth_error args i with Some d => run_ops ops d (PArg i) | None => None end
  | SSelf ops => match self with Some d => run_ops ops d PGrid | None => None end
  | SLike i ops =>
      match nth_error args i with
      | Some d => match run_ops ops d (PArg i) with Some (d', _) => Some (d', PFresh) | None => None end
      | None => None
      end
  | SState d => Some (d, PState)
  | SGlobal d => Some (d, PGlobal)
  | SAlloc d => Some (d, PFresh)
  end.

(* ---- what the working tree says about an entry point *)

Fixpoint lookup {A} (k : string) (l : list (string * A)) : option A :=
  match l with
  | [] => None
  | (k', v) :: r => if String.eqb k k' then Some v else lookup k r
  end.

Fixpoint lookup_param (p : string) (l : list (string * cty * Z * bool)) : option (cty * Z * bool) :=
  match l with
  | [] => None
  | (p', t, n, w) :: r => if String.eqb p p' then Some (t, n, w) else lookup_param p r
  end.

Definition entry_param (e p : string) : option (cty * Z * bool) :=
  match lookup e ENTRIES with
  | Some (_, ps) => lookup_param p ps
  | None => None
  end.

(* fail-closed: an unknown entry / parameter counts as written *)
Definition written (e p : string) : bool :=
  match entry_param e p with Some (_, _, w) => w | None => true end.

Definition cty_dty (t : cty) : dty := match t with TF64 => DF64 | TI32 => DI32 | TI64 => DI64 end.
Definition z_ndim (n : Z) : option ndim :=
  if (n =? 0)%Z then Some N0 else if (n =? 1)%Z then Some N1 else if (n =? 2)%Z then Some N2 else None.

(* the Cython buffer contract np.ndarray[t, ndim=n, mode='c'] ; unknown entries accept anything *)
Definition accepted (e p : string) (d : desc) : bool :=
  match entry_param e p with
  | Some (t, n, _) =>
      cont_eqb (d_cont d) CNd && dty_eqb (d_dt d) (cty_dty t) &&
      (match z_ndim n with Some k => ndim_eqb (d_nd d) k | None => false end) &&
      lay_eqb (d_lay d) LC
  | None => true
  end.

(* ---- the static check *)

Definition result_ok (e p : string) (r : option (desc * prov)) : bool :=
  match r with
  | None => true                                   (* the wrapper raises before the kernel *)
  | Some (d, pr) => if accepted e p d then (if written e p then writable pr else true) else true
  end.

Definition src_ok (e p : string) (s : src) : bool :=
  match s with
  | SArg i ops => forallb (fun d => result_ok e p (run_ops ops d (PArg i))) all_desc
  | SSelf ops => forallb (fun d => result_ok e p (run_ops ops d PGrid)) all_desc
  | SLike _ _ => true
  | SState d => result_ok e p (Some (d, PState))
  | SGlobal d => result_ok e p (Some (d, PGlobal))
  | SAlloc _ => true
  end.

Definition call_ok (c : kcall) : bool :=
  forallb (fun ps => src_ok (k_entry c) (fst ps) (snd ps)) (k_params c).

Definition check (w : wrapper) : bool := forallb call_ok (w_calls w).

(* ------------------------------------------------------------------ *)
(* the transcribed wrappers                                             *)

Definition a1 (t : dty) := mkd CNd t N1 LC.
Definition a2 (t : dty) := mkd CNd t N2 LC.
Definition fdcode := ("flowdircode", SGlobal (a2 DI64)).
Definition selfdir := ("flowdir", SSelf [OGridData]).

(* metrics.py:29-59 : obs = atleast_1d(obs).astype(f8); squeeze / raise if still 2d; obs[idx]
                      ens = atleast_2d(ens).astype(f8); ens[idx, :] *)
Definition ens_obs (i : nat) := SArg i [OAtleast1d; OAstype DF64; OGuard1d; OMask].
Definition ens_ens (i : nat) := SArg i [OAtleast2d; OAstype DF64; OMask].

Definition w_crps := mkw "metrics.crps"
  [mkcall "stat.crps" [("obs", ens_obs 0); ("sim", ens_ens 1); ("weight_vector", SAlloc (a1 DF64));
                       ("reliability_table", SAlloc (a2 DF64)); ("crps_decompos", SAlloc (a1 DF64))]].

(* metrics.py:202 *)
Definition w_ad := mkw "metrics.anderson_darling_test"
  [mkcall "stat.ad_test" [("unifdata", SArg 0 [OAtleast1d; OAstype DF64]); ("outputs", SAlloc (a1 DF64))]].

(* metrics.py:284-299 : the pits are computed values *)
Definition w_alpha := mkw "metrics.alpha"
  [mkcall "stat.ad_test" [("unifdata", SAlloc (a1 DF64)); ("outputs", SAlloc (a1 DF64))]].

(* metrics.py:527-546 *)
Definition w_dscore := mkw "metrics.dscore"
  [mkcall "stat.ensrank" [("sim", SArg 1 [OAtleast2d; OAstype DF64]); ("fmat", SAlloc (a2 DF64));
                          ("ranks", SAlloc (a1 DF64))]].

(* sutils.py:312-328 *)
Definition w_pareto := mkw "sutils.pareto_front"
  [mkcall "stat.pareto_front" [("data", SArg 0 [OAstype DF64; OAsContig]); ("isdominated", SAlloc (a1 DI32))]].

(* armodels.py:56-71 *)
Definition ar_series := [ONeedAttr; OAtleast1d; OAstype DF64; OAsContig].
Definition w_arsim := mkw "armodels.armodel_sim"
  [mkcall "stat.armodel_sim" [("params", SArg 0 [OAtleast1d; OAstype DF64]); ("inputs", SArg 1 ar_series);
                              ("outputs", SLike 1 ar_series)]].
(* armodels.py:126-141 *)
Definition w_arres := mkw "armodels.armodel_residual"
  [mkcall "stat.armodel_residual" [("params", SArg 0 [OAtleast1d; OAstype DF64]); ("inputs", SArg 1 ar_series);
                                   ("residuals", SLike 1 ar_series)]].

(* dutils.py:189-196 *)
Definition w_aggregate := mkw "dutils.aggregate"
  [mkcall "data.aggregate" [("aggindex", SArg 0 [ONpArray; OAstype DI32]); ("inputs", SArg 1 [OAstype DF64]);
                            ("outputs", SLike 1 [OAstype DF64; OArith]); ("iend", SAlloc (a1 DI32))]].
(* dutils.py:239-245 *)
Definition flathomogen_call :=
  mkcall "data.flathomogen" [("aggindex", SArg 0 [ONpArray; OAstype DI32]); ("inputs", SArg 1 [OAstype DF64]);
                             ("outputs", SLike 1 [OAstype DF64; OArith])].
Definition w_flathomogen := mkw "dutils.flathomogen" [flathomogen_call].
(* signatures.py:161 : goue(aggindex, values) = flathomogen(aggindex, values) then nse *)
Definition w_goue := mkw "signatures.goue" [flathomogen_call].

(* dutils.py:478-500 *)
Definition w_var2h := mkw "dutils.var2h"
  [mkcall "data.var2h" [("varsec", SAlloc (a1 DI64)); ("varvalues", SArg 0 [OValues; OAstype DF64]);
                        ("hvalues", SAlloc (a1 DF64))]].

(* qualitycontrol.py:103-121 : the caller's array goes to the kernel as it is *)
Definition w_islinear := mkw "qualitycontrol.islinear"
  [mkcall "data.islin" [("data", SArg 0 [ONeedAttr; OId]); ("islin", SAlloc (a1 DI32))]].

(* signatures.py:61-66 *)
Definition w_eckhardt := mkw "signatures.eckhardt"
  [mkcall "data.eckhardt" [("flow", SArg 0 [ONpArray; OAstype DF64]); ("bflow", SAlloc (a1 DF64))]].

(* grid.py:629-634 *)
Definition w_coord2cell := mkw "grid.Grid.coord2cell"
  [mkcall "gis.coord2cell" [("xycoords", SArg 0 [OAtleast2d; OAsContigDt DF64]); ("idxcell", SAlloc (a1 DI64))]].
(* grid.py:670-675 *)
Definition w_cell2coord := mkw "grid.Grid.cell2coord"
  [mkcall "gis.cell2coord" [("idxcell", SArg 0 [OAtleast1d; OAsContigDt DI64]); ("coords", SAlloc (a2 DF64))]].
(* grid.py:711-716 *)
Definition w_cell2rowcol := mkw "grid.Grid.cell2rowcol"
  [mkcall "gis.cell2rowcol" [("idxcell", SArg 0 [OAtleast1d; OAsContigDt DI64]); ("rowcols", SAlloc (a2 DI64))]].
(* grid.py:745-749 *)
Definition w_neighbours := mkw "grid.Grid.neighbours"
  [mkcall "gis.neighbours" [("neighbours", SAlloc (a1 DI64))]].
(* grid.py:775-782 *)
Definition w_slice := mkw "grid.Grid.slice"
  [mkcall "gis.slice" [("data", SSelf [OGridData; OAstype DF64]); ("xyslice", SArg 0 [OAtleast2d; OAsContigDt DF64]);
                       ("zslice", SAlloc (a1 DF64))]].

(* gutils.py:45-63 *)
Definition w_pip := mkw "gutils.points_inside_polygon"
  [mkcall "gis.points_inside_polygon" [("points", SArg 0 [OAstype DF64]); ("polygon", SArg 1 [OAstype DF64]);
                                       ("inside", SAlloc (a1 DI32))]].
(* grid.py:969-974 : cell centres computed first, then gutils.points_inside_polygon(points, polygon) *)
Definition w_cells_inside := mkw "grid.Grid.cells_inside_polygon"
  [mkcall "gis.cell2coord" [("idxcell", SAlloc (a1 DI64)); ("coords", SAlloc (a2 DF64))];
   mkcall "gis.points_inside_polygon" [("points", SAlloc (a2 DF64)); ("polygon", SArg 0 [OAstype DF64]);
                                       ("inside", SAlloc (a1 DI32))]].

(* grid.py:1151-1156 *)
Definition w_upstream := mkw "grid.Catchment.upstream"
  [mkcall "gis.upstream" [fdcode; selfdir; ("idxdown", SArg 0 [OAtleast1d; OAstype DI64]); ("idxup", SAlloc (a2 DI64))]].
(* grid.py:1167-1173 *)
Definition w_downstream := mkw "grid.Catchment.downstream"
  [mkcall "gis.downstream" [fdcode; selfdir; ("idxup", SArg 0 [OAtleast1d; OAstype DI64]); ("idxdown", SAlloc (a1 DI64))]].
(* grid.py:1196-1229 : kernel, then cell2rowcol of the stored area *)
Definition w_delineate_area := mkw "grid.Catchment.delineate_area"
  [mkcall "gis.delineate_area" [fdcode; selfdir; ("idxinlets", SArg 0 [OAtleast1d; OAstype DI64]);
                                ("idxcells_area", SAlloc (a1 DI64)); ("buffer1", SAlloc (a1 DI64));
                                ("buffer2", SAlloc (a1 DI64))];
   mkcall "gis.cell2rowcol" [("idxcell", SState (a1 DI64)); ("rowcols", SAlloc (a2 DI64))]].
(* grid.py:1262-1297 : the kernel sorts the object's own filled-area list in place;
   a caller-supplied mask goes to the kernel as it is *)
Definition boundary_calls (mask : src) :=
  [mkcall "gis.delineate_boundary" [("idxcells_area", SState (a1 DI64)); ("buffer", SAlloc (a1 DI64));
                                    ("catchment_area_mask", mask); ("idxcells_boundary", SAlloc (a1 DI64))];
   mkcall "gis.cell2coord" [("idxcell", SAlloc (a1 DI64)); ("coords", SAlloc (a2 DF64))];
   mkcall "gis.exclude_zero_area_boundary" [("xycoords", SAlloc (a2 DF64)); ("idxok", SAlloc (a1 DI64))]].
Definition w_boundary := mkw "grid.Catchment.delineate_boundary" (boundary_calls (SAlloc (a1 DI64))).
Definition w_boundary_mask := mkw "grid.Catchment.delineate_boundary[mask]" (boundary_calls (SArg 0 [OId])).
(* grid.py:1315-1324 *)
Definition w_flowpaths := mkw "grid.Catchment.compute_flowpathlengths"
  [mkcall "gis.delineate_flowpathlengths_in_catchment"
     [fdcode; selfdir; ("idxcells_area", SState (a1 DI64)); ("flowpathlengths", SAlloc (a2 DF64))]].
(* grid.py:1370-1394 *)
Definition w_intersect := mkw "grid.Catchment.intersect"
  [mkcall "gis.cell2coord" [("idxcell", SState (a1 DI64)); ("coords", SAlloc (a2 DF64))];
   mkcall "gis.intersect" [("xy_area", SAlloc (a2 DF64)); ("npoints", SAlloc (a1 DI64));
                           ("idxcells", SAlloc (a1 DI64)); ("weights", SAlloc (a1 DF64))];
   mkcall "gis.cell2coord" [("idxcell", SAlloc (a1 DI64)); ("coords", SAlloc (a2 DF64))];
   mkcall "gis.cell2rowcol" [("idxcell", SAlloc (a1 DI64)); ("rowcols", SAlloc (a2 DI64))]].

(* grid.py:1554-1568 : flowdir.dtype = int64, then flowdir.data goes to the kernel *)
Definition griddata (t : dty) := [OGridSetDtype t; OGridData].
Definition w_river := mkw "grid.delineate_river"
  [mkcall "gis.delineate_river" [fdcode; ("flowdir", SArg 0 (griddata DI64)); ("npoints", SAlloc (a1 DI64));
                                 ("idxcells", SAlloc (a1 DI64)); ("data", SAlloc (a2 DF64))]].
(* grid.py:1612-1631 *)
Definition w_accumulate := mkw "grid.accumulate"
  [mkcall "gis.accumulate" [fdcode; ("flowdir", SArg 0 (griddata DI64)); ("to_accumulate", SArg 1 (griddata DF64));
                            ("accumulation", SLike 1 (griddata DF64))]].
(* grid.py:1747-1759 *)
Definition w_slope := mkw "grid.slope"
  [mkcall "gis.slope" [fdcode; ("flowdir", SArg 0 (griddata DI64)); ("altitude", SArg 1 (griddata DF64));
                       ("slopeval", SLike 1 (griddata DF64))]].
(* grid.py:1666-1671 *)
Definition w_voronoi := mkw "grid.voronoi"
  [mkcall "gis.voronoi" [("idxcells_area", SArg 0 [OAttrCells; ONpArray; OAstype DI64]);
                         ("xypoints", SArg 1 [OAtleast2d; OAstype DF64]); ("weights", SAlloc (a1 DF64))]].

Definition WRAPPERS : list wrapper :=
  [w_crps; w_ad; w_alpha; w_dscore; w_pareto; w_arsim; w_arres; w_aggregate; w_flathomogen; w_goue; w_var2h;
   w_islinear; w_eckhardt; w_coord2cell; w_cell2coord; w_cell2rowcol; w_neighbours; w_slice; w_pip;
   w_cells_inside; w_upstream; w_downstream; w_delineate_area; w_boundary; w_boundary_mask; w_flowpaths;
   w_intersect; w_river; w_accumulate; w_slope; w_voronoi].

(* every kernel call site found in the anchored Python files has a wrapper that calls that entry *)
Definition site_covered (cs : string * string) : bool :=
  existsb (fun w => String.eqb (w_site w) (fst cs) &&
                    existsb (fun c => String.eqb (k_entry c) (snd cs)) (w_calls w)) WRAPPERS.
Definition callsites_covered : bool := forallb site_covered CALLSITES.

(* every parameter name used in a wrapper exists in the extracted entry, and every
   array parameter of the entry is given a source *)
Definition call_wf (c : kcall) : bool :=
  match lookup (k_entry c) ENTRIES with
  | Some (_, ps) =>
      forallb (fun q => match lookup_param (fst q) ps with Some _ => true | None => false end) (k_params c) &&
      forallb (fun q => match q with (n, _, _, _) =>
                          existsb (fun r => String.eqb (fst r) n) (k_params c) end) ps
  | None => false
  end.
Definition wrappers_wf : bool := forallb (fun w => forallb call_wf (w_calls w)) WRAPPERS.

(* ---- the two in-place writes of the pinned code that are NOT in front of a kernel
   (DESIGN 6 row 23), expressed with pseudo entries that are not in ENTRIES
   (hence written, fail-closed):
     putils.py:404-409  xy = xy.T (if needed); xy += noise          (pinned)
                        xy = xy + noise                            (repaired: no store at all)
     sutils.py:376-382  X.loc[:, "intercept"] = ones               (pinned)
                        X = X.copy(); X.loc[:, "intercept"] = ones (repaired) *)
Definition w_kde_pinned := mkw "putils.kde" [mkcall "py.iadd" [("self", SArg 0 [OTranspose])]].
Definition w_kde := mkw "putils.kde" [mkcall "py.iadd" [("self", SArg 0 [OTranspose; OArith])]].
Definition w_lstsq_pinned := mkw "sutils.lstsq" [mkcall "py.setitem" [("self", SArg 0 [OFrameOnly])]].
Definition w_lstsq := mkw "sutils.lstsq" [mkcall "py.setitem" [("self", SArg 0 [OFrameOnly; OCopy])]].

(* other Python-level stores (`a[...] = v`) of the listed functions, into arrays derived from
   an argument (no correspondence for these beyond the idioms; the search decides):
     metrics.py:721-725   obsc = np.array(obs).squeeze().copy(); obsc[obsc < 0] = nan   (and sim)
     dutils.py:277-285    data = atleast_1d(data); lagged = np.roll(data, lag); lagged[:lag] = missing
     dutils.py:353-354    sec = se.copy(); sec[isnull] = ...
     grid.py:1779-1799    z0 = grid.data.copy(); z0[...] = nan / -inf
     transform.py:515-521 x = atleast_1d(x); y = x * nan; y[ipos] = ...           (YeoJohnson) *)
Definition store (ops0 ops1 : list op) :=
  [mkcall "py.setitem" [("self", SArg 0 ops0)]; mkcall "py.setitem" [("self", SArg 1 ops1)]].
Definition w_peak_error := mkw "metrics.absolute_peak_error"
  (store [ONpArray; OSqueeze; OCopy] [ONpArray; OSqueeze; OCopy]).
Definition w_lag := mkw "dutils.lag" [mkcall "py.setitem" [("self", SArg 0 [OAtleast1d; ONewArray])]].
Definition w_monthly2daily := mkw "dutils.monthly2daily" [mkcall "py.setitem" [("self", SArg 0 [OCopy])]].
Definition w_gsmooth := mkw "grid.gsmooth" [mkcall "py.setitem" [("self", SArg 0 [OGridData; OCopy])]].
Definition w_yeojohnson := mkw "transform.YeoJohnson._forward"
  [mkcall "py.setitem" [("self", SArg 0 [OAtleast1d; OArith])]].
Definition PYSTORES : list wrapper :=
  [w_kde; w_lstsq; w_peak_error; w_lag; w_monthly2daily; w_gsmooth; w_yeojohnson].

(* ------------------------------------------------------------------ *)
(* concrete semantics: blocks of memory                                 *)

Section Concrete.
Variable A : Type.                        (* contents of a block *)
Variable copyf : op -> A -> A.            (* what a copying idiom stores in the new block *)
Variable initf : desc -> A.               (* contents of a freshly allocated array *)

Definition block := nat.
Definition heap := block -> A.
Definition upd (h : heap) (b : block) (a : A) : heap := fun x => if Nat.eqb x b then a else h x.

(* where the caller's objects live *)
Record env := mkenv {
  e_args : list (block * desc);           (* array / grid arguments *)
  e_self : option (block * desc);         (* grid of the object *)
  e_state : block;                        (* derived state of the object *)
  e_global : block }.                     (* module constant *)

Fixpoint crun_ops (ops : list op) (b : block) (d : desc) (h : heap) (n : block)
  : option (block * desc * heap * block) :=
  match ops with
  | [] => Some (b, d, h, n)
  | o :: r =>
      match apply_op o d with
      | None => None
      | Some (d', true) => crun_ops r b d' h n
      | Some (d', false) => crun_ops r n d' (upd h n (copyf o (h b))) (S n)
      end
  end.

Definition ceval_src (s : src) (e : env) (h : heap) (n : block) : option (block * desc * heap * block) :=
  match s with
  | SArg i ops => match nth_error (e_args e) i with Some (b, d) => crun_ops ops b d h n | None => None end
  | SSelf ops => match e_self e with Some (b, d) => crun_ops ops b d h n | None => None end
  | SLike i ops =>
      match nth_error (e_args e) i with
      | Some (b, d) =>
          match crun_ops ops b d h n with
          | Some (_, d', h', n') => Some (n', d', upd h' n' (initf d'), S n')
          | None => None
          end
      | None => None
      end
  | SState d => Some (e_state e, d, h, n)
  | SGlobal d => Some (e_global e, d, h, n)
  | SAlloc d => Some (n, d, upd h n (initf d), S n)
  end.

(* parameters of one call, left to right *)
Fixpoint ceval_params (ps : list (string * src)) (e : env) (h : heap) (n : block)
  : option (list (string * block * desc) * heap * block) :=
  match ps with
  | [] => Some ([], h, n)
  | (p, s) :: r =>
      match ceval_src s e h n with
      | None => None
      | Some (b, d, h1, n1) =>
          match ceval_params r e h1 n1 with
          | None => None
          | Some (l, h2, n2) => Some ((p, b, d) :: l, h2, n2)
          end
      end
  end.

Definition all_accepted (en : string) (l : list (string * block * desc)) : bool :=
  forallb (fun q => match q with (p, _, d) => accepted en p d end) l.

(* a kernel may change exactly the blocks of the parameters it stores through *)
Definition kernel_frame (en : string) (l : list (string * block * desc)) (h h' : heap) : Prop :=
  forall b, (forall p b' d, In (p, b', d) l -> written en p = true -> b' <> b) -> h' b = h b.

(* executions of a wrapper: any kernel behaviour within its write-set; the
   wrapper may stop after any step (error code -> exception) *)
Inductive exec (e : env) : list kcall -> heap -> block -> heap -> block -> Prop :=
| ex_done : forall cs h n, exec e cs h n h n
| ex_raise_before : forall c cs h n, ceval_params (k_params c) e h n = None -> exec e (c :: cs) h n h n
| ex_rejected : forall c cs h n l h1 n1,
    ceval_params (k_params c) e h n = Some (l, h1, n1) ->
    all_accepted (k_entry c) l = false -> exec e (c :: cs) h n h1 n1
| ex_call : forall c cs h n l h1 n1 h2 h3 n3,
    ceval_params (k_params c) e h n = Some (l, h1, n1) ->
    all_accepted (k_entry c) l = true ->
    kernel_frame (k_entry c) l h1 h2 ->
    exec e cs h2 n1 h3 n3 ->
    exec e (c :: cs) h n h3 n3.

(* the caller's objects live below the allocation pointer *)
Definition env_wf (e : env) (n0 : block) : Prop :=
  (forall b d, In (b, d) (e_args e) -> b < n0 /\ b <> e_state e) /\
  (forall b d, e_self e = Some (b, d) -> b < n0 /\ b <> e_state e) /\
  e_state e < n0 /\ e_global e < n0 /\ e_global e <> e_state e.

(* ---- deterministic kernels: [kfun entry contents-of-the-parameters] = new contents,
   stored into the parameters of the write-set, in order *)
Variable kfun : string -> list A -> list A.

Fixpoint kstore (en : string) (l : list (string * block * desc)) (outs : list A) (h : heap) : heap :=
  match l, outs with
  | (p, b, _) :: l', v :: outs' => kstore en l' outs' (if written en p then upd h b v else h)
  | _, _ => h
  end.

Definition contents (h : heap) (l : list (string * block * desc)) : list A :=
  map (fun q => h (snd (fst q))) l.

(* observations of a run: the contents of every parameter after every kernel call
   (what the Python glue computes the returned value from) *)
Fixpoint drun (e : env) (cs : list kcall) (h : heap) (n : block) : list (list A) * heap * block :=
  match cs with
  | [] => ([], h, n)
  | c :: r =>
      match ceval_params (k_params c) e h n with
      | None => ([], h, n)
      | Some (l, h1, n1) =>
          if all_accepted (k_entry c) l then
            let h2 := kstore (k_entry c) l (kfun (k_entry c) (contents h1 l)) h1 in
            match drun e r h2 n1 with
            | (o, h3, n3) => (contents h2 l :: o, h3, n3)
            end
          else ([], h1, n1)
      end
  end.

End Concrete.

(* ------------------------------------------------------------------ *)
(* correspondence glue                                                  *)

(* observed descriptor of an ndarray: (dtype if one of the five, ndim, C-contiguous) *)
Definition odesc := (option dty * ndim * bool)%type.

Inductive acase :=
| COp (o : op) (d : desc) (obs : option (bool * option odesc * bool))
      (* None: raised; Some (is an ndarray, descriptor, shares memory with the operand) *)
| CPipe (site : string) (args : list desc) (self : option desc)
        (calls : list (string * bool * list (string * option odesc * prov)))
| CWrite (entry param : string).      (* a kernel was seen to modify this parameter *)

Definition odt_eqb (a : option dty) (b : dty) : bool :=
  match a with Some x => dty_eqb x b | None => false end.

Definition desc_matches (d : desc) (o : option odesc) : bool :=
  match o with
  | Some (t, n, c) =>
      cont_eqb (d_cont d) CNd && odt_eqb t (d_dt d) && ndim_eqb n (d_nd d) && Bool.eqb c (lay_eqb (d_lay d) LC)
  | None => negb (cont_eqb (d_cont d) CNd)
  end.

Fixpoint lookup_src (p : string) (l : list (string * src)) : option src :=
  match l with
  | [] => None
  | (p', s) :: r => if String.eqb p p' then Some s else lookup_src p r
  end.

Definition call_matches (c : kcall) (args : list desc) (self : option desc)
           (o : string * bool * list (string * option odesc * prov)) : bool :=
  match o with
  | (en, acc, ps) =>
      String.eqb en (k_entry c) &&
      forallb (fun q => match q with (p, od, opv) =>
                 match lookup_src p (k_params c) with
                 | Some s =>
                     match eval_src s args self with
                     | Some (d, pv) =>
                         desc_matches d od &&
                         (if cont_eqb (d_cont d) CNd then prov_eqb pv opv else true)
                     | None => false
                     end
                 | None => false
                 end end) ps &&
      Bool.eqb acc
        (forallb (fun q => match eval_src (snd q) args self with
                           | Some (d, _) => accepted (k_entry c) (fst q) d
                           | None => false end) (k_params c))
  end.

(* observed calls form a subsequence of the wrapper's calls (branches not taken are skipped) *)
Fixpoint calls_match (cs : list kcall) (args : list desc) (self : option desc)
         (os : list (string * bool * list (string * option odesc * prov))) : bool :=
  match os with
  | [] => true
  | o :: os' =>
      (fix find (cs : list kcall) : bool :=
         match cs with
         | [] => false
         | c :: r => if call_matches c args self o then calls_match r args self os' else find r
         end) cs
  end.

Definition find_wrapper (site : string) : option wrapper :=
  find (fun w => String.eqb (w_site w) site) WRAPPERS.

Definition a_ok (c : acase) : bool :=
  match c with
  | COp o d obs =>
      match apply_op o d, obs with
      | None, None => true
      | Some (d', v), Some (isnd, od, sh) =>
          if cont_eqb (d_cont d') CNd
          then isnd && desc_matches d' od && Bool.eqb v sh
          else negb isnd
      | _, _ => false
      end
  | CPipe site args self calls =>
      match find_wrapper site with
      | Some w => calls_match (w_calls w) args self calls
      | None => false
      end
  | CWrite e p => written e p
  end.
