(* Model of src/hydrodiy/stat/c_armodels.c (c_armodel_sim, c_armodel_residual)
   and of the defaults applied by src/hydrodiy/stat/armodels.py.
   Generic over [NumOps]; the order of floating-point operations is that of
   the C text. *)
From Coq Require Import ZArith Bool List.
From Hy Require Import Base.Num Gen.Consts.
Import ListNotations.

Section Armodel.
Context {T : Type} (O : NumOps T).

Inductive arres := ArErr | ArOk (out : list T).

(* the checks at the head of both kernels *)
Definition ar_params_ok (mean ini : T) (params : list T) : bool :=
  negb (Nat.ltb (Z.to_nat ARMODEL_NPARAMSMAX) (length params)) &&
  negb (Nat.eqb (length params) 0) &&
  forallb (fun p => negb (nisnan O p)) params &&
  negb (nisnan O mean) && negb (nisnan O ini).

(* for(k=nparams-1; k>=0; k--) if(!isnan(prev[k])) tmp += params[k]*prev[k]; *)
Definition sim_term (acc : T) (pc : T * T) : T :=
  if nisnan O (snd pc) then acc else nadd O acc (nmul O (fst pc) (snd pc)).

Definition sim_step (mean : T) (params prev : list T) (e : T) : list T * T :=
  let v := if nisnan O e then n0 O else e in
  let tmp := fold_left sim_term (rev (combine params prev)) v in
  (tmp :: removelast prev, nadd O tmp mean).

Fixpoint sim_loop (mean : T) (params prev innov : list T) : list T :=
  match innov with
  | [] => []
  | e :: rest =>
      let (prev', y) := sim_step mean params prev e in
      y :: sim_loop mean params prev' rest
  end.

Definition armodel_sim (mean ini : T) (params innov : list T) : arres :=
  if ar_params_ok mean ini params
  then ArOk (sim_loop mean params (map (fun _ => nsub O ini mean) params) innov)
  else ArErr.

(* residual kernel *)
Definition res_pred (params prev : list T) : T :=
  fold_left (fun acc pc => nadd O acc (nmul O (fst pc) (snd pc)))
            (combine params prev) (n0 O).

Definition res_step (mean : T) (params prev : list T) (x : T) : list T * T :=
  let v0 := nsub O x mean in
  let v := if nisnan O v0 then res_pred params prev else v0 in
  let tmp := fold_left (fun acc pc => nsub O acc (nmul O (fst pc) (snd pc)))
                       (rev (combine params prev)) v in
  (v :: removelast prev, tmp).

Fixpoint res_loop (mean : T) (params prev inputs : list T) : list T :=
  match inputs with
  | [] => []
  | x :: rest =>
      let (prev', r) := res_step mean params prev x in
      r :: res_loop mean params prev' rest
  end.

Definition armodel_residual (mean ini : T) (params inputs : list T) : arres :=
  if ar_params_ok mean ini params
  then ArOk (res_loop mean params (map (fun _ => nsub O ini mean) params) inputs)
  else ArErr.

End Armodel.

(* ---- correspondence-check glue (binary64 instance) ---- *)
From Coq Require Import PrimFloat.

(* kind: 0 = sim, 1 = residual.  expected: None = ValueError *)
Record arcase := {
  ar_kind : Z; ar_mean : float; ar_ini : float;
  ar_params : list float; ar_series : list float;
  ar_expect : option (list float) }.

Definition ar_run (c : arcase) : arres :=
  if (ar_kind c =? 0)%Z
  then armodel_sim F64 (ar_mean c) (ar_ini c) (ar_params c) (ar_series c)
  else armodel_residual F64 (ar_mean c) (ar_ini c) (ar_params c) (ar_series c).

Definition ar_ok (c : arcase) : bool :=
  match ar_run c, ar_expect c with
  | ArErr, None => true
  | ArOk out, Some e => list_same f_same out e
  | _, _ => false
  end.
