(* C05 - index-level models of the compiled kernels, in an error monad.

   Every array access of the C text goes through [rd]/[wr]/[touch] (error
   [OOB buf idx] when the index is outside the buffer the wrapper handed over),
   every integer division / modulo through [zmod] (error [DivZero]), every
   product the C code forms in a 32-bit [int] through [mul32], every 64-bit sum
   that can wrap through [chk64] (error [Overflow]) and every
   (long long)/(int) conversion of a double through [cast64]/[cast32] (error
   [CastRange]).  The loops and the data-dependent index variables (count,
   start, varindex, jmin, knext, nbuffer...) are those of the C text.  What is
   NOT modelled is the value of floating-point outputs that never reach an index
   (they are the subject of C03/C04/C08/C11/C14/C16/C17); an output buffer whose
   values are not modelled is a list of "written" marks.

   Kernels that had a memory-safety defect in the pinned code take a flag
   [fx : bool]: [fx = true] is the repaired code (the `fix:` commits recorded in
   known_findings.d/C05.json), [fx = false] the code as pinned.

   This file: the monad, loops, and the kernels of the data package
   (c_dutils.c, c_qualitycontrol.c, c_baseflow.c, c_var2h.c, c_dateutils.c).
   No proofs in this file. *)
From Coq Require Import ZArith Bool List String.
From Hy Require Import Base.Num Gen.ConstsC05.
Import ListNotations.
Open Scope Z_scope.

(* ------------------------------------------------------------------ *)
(* errors, results, control                                             *)

Inductive err :=
| OOB (buf : string) (idx : Z)   (* read/write outside the buffer *)
| DivZero                        (* integer division or modulo by zero *)
| Overflow                       (* signed integer overflow *)
| CastRange                      (* double -> integer conversion of NaN / out of range value *)
| Fuel.                          (* a loop ran out of fuel (never on admissible input) *)

Inductive res (A : Type) := Ok (a : A) | Err (e : err).
Arguments Ok {A}. Arguments Err {A}.

(* outcome of a statement (sequence) working on state S *)
Inductive step (S : Type) :=
| Next (s : S)            (* fell through / `continue` *)
| Brk (s : S)             (* `break` out of the innermost loop *)
| Ret (c : Z) (s : S)     (* the kernel executed `return c` *)
| Fail (e : err).         (* undefined behaviour *)
Arguments Next {S}. Arguments Brk {S}. Arguments Ret {S}. Arguments Fail {S}.

Definition safe {S} (r : step S) : Prop := match r with Fail _ => False | _ => True end.
Definition safeb {S} (r : step S) : bool := match r with Fail _ => false | _ => true end.

(* let! x := (e : res A) in (k : step S) *)
Definition bindr {A S} (m : res A) (k : A -> step S) : step S :=
  match m with Ok a => k a | Err e => Fail e end.
Notation "'let!' x ':=' m 'in' k" := (bindr m (fun x => k))
  (at level 200, x pattern, m at level 100, k at level 200).

(* let? x := (e : res A) in (k : res B) *)
Definition bindR {A B} (m : res A) (k : A -> res B) : res B :=
  match m with Ok a => k a | Err e => Err e end.
Notation "'let?' x ':=' m 'in' k" := (bindR m (fun x => k))
  (at level 200, x pattern, m at level 100, k at level 200).

(* s1 ;; s2 : sequencing of statements on the same state *)
Definition seq {S} (m : step S) (k : S -> step S) : step S :=
  match m with Next s => k s | r => r end.
Notation "'do!' s ':=' m 'in' k" := (seq m (fun s => k))
  (at level 200, s pattern, m at level 100, k at level 200).

(* a kernel that falls off its end returns [dflt] *)
Definition finish {S} (dflt : Z) (m : step S) : step S :=
  match m with Next s => Ret dflt s | Brk s => Ret dflt s | r => r end.

(* ------------------------------------------------------------------ *)
(* loops                                                                *)

(* for(i = lo; i < lo+n; i++) body  -- [Brk] leaves the loop *)
Fixpoint for_loop {S} (n : nat) (i : Z) (body : Z -> S -> step S) (s : S) : step S :=
  match n with
  | O => Next s
  | Datatypes.S n' =>
      match body i s with
      | Next s' => for_loop n' (i + 1) body s'
      | Brk s' => Next s'
      | r => r
      end
  end.
Definition forZ {S} (lo hi : Z) (body : Z -> S -> step S) (s : S) : step S :=
  for_loop (Z.to_nat (hi - lo)) lo body s.

(* while(...) body  -- the body tests the condition itself and answers [Brk];
   running out of fuel is an error of its own *)
Fixpoint while_loop {S} (fuel : nat) (body : S -> step S) (s : S) : step S :=
  match fuel with
  | O => Fail Fuel
  | Datatypes.S f =>
      match body s with
      | Next s' => while_loop f body s'
      | Brk s' => Next s'
      | r => r
      end
  end.

(* ------------------------------------------------------------------ *)
(* buffers                                                              *)

Definition Zlen {A} (l : list A) : Z := Z.of_nat (List.length l).
Definition inb (i len : Z) : bool := (0 <=? i) && (i <? len).

Definition rd {A} (name : string) (d : A) (l : list A) (i : Z) : res A :=
  if inb i (Zlen l) then Ok (nth (Z.to_nat i) l d) else Err (OOB name i).

Fixpoint upd {A} (l : list A) (n : nat) (v : A) : list A :=
  match l, n with
  | [], _ => []
  | _ :: t, O => v :: t
  | h :: t, Datatypes.S n' => h :: upd t n' v
  end.

Definition wr {A} (name : string) (l : list A) (i : Z) (v : A) : res (list A) :=
  if inb i (Zlen l) then Ok (upd l (Z.to_nat i) v) else Err (OOB name i).

(* access to a buffer whose content is not modelled: only the bound matters *)
Definition touch (name : string) (len i : Z) : res unit :=
  if inb i len then Ok tt else Err (OOB name i).

(* output buffer with unmodelled values: [true] = written *)
Definition mark (name : string) (l : list bool) (i : Z) : res (list bool) := wr name l i true.

(* ------------------------------------------------------------------ *)
(* integer arithmetic with C semantics                                  *)

Definition in_int32 (z : Z) : bool := (-2147483648 <=? z) && (z <=? 2147483647).
Definition in_int64 (z : Z) : bool :=
  (-9223372036854775808 <=? z) && (z <=? 9223372036854775807).
Definition chk32 (z : Z) : res Z := if in_int32 z then Ok z else Err Overflow.
Definition chk64 (z : Z) : res Z := if in_int64 z then Ok z else Err Overflow.
Definition mul32 (a b : Z) : res Z := chk32 (a * b).

(* C99 division truncates toward zero: Z.quot / Z.rem *)
Definition zdiv (a b : Z) : res Z := if b =? 0 then Err DivZero else Ok (Z.quot a b).
Definition zmod (a b : Z) : res Z := if b =? 0 then Err DivZero else Ok (Z.rem a b).

Definition cast64 (z : option Z) : res Z :=
  match z with Some v => if in_int64 v then Ok v else Err CastRange | None => Err CastRange end.
Definition cast32 (z : option Z) : res Z :=
  match z with Some v => if in_int32 v then Ok v else Err CastRange | None => Err CastRange end.

(* ================================================================== *)
(* c_dutils.c                                                           *)

(* ---- c_aggregate(nval, operator, maxnan, aggindex, inputs, outputs, iend).
   Control depends on aggindex only.  [ninp] = length of inputs. *)
Record aggst := mkAgg {
  ag_prev : Z;                 (* iaprev *)
  ag_count : Z;                (* count *)
  ag_out : list bool;          (* outputs: written marks *)
  ag_iend : list (option Z)    (* iend *)
}.

Definition agg_body (nval : Z) (aggindex : list Z) (ninp : Z) (i : Z) (s : aggst) : step aggst :=
  let! ia := rd "aggindex" 0 aggindex i in
  if ia <? ag_prev s then Ret 1 s                       (* DUTILS_ERROR + __LINE__ *)
  else
    do! s := (if negb (ia =? ag_prev s) then
                let! o := mark "outputs" (ag_out s) (ag_count s) in
                let c := ag_count s + 1 in
                if nval <=? c then Ret 1 (mkAgg (ag_prev s) c o (ag_iend s))
                else Next (mkAgg ia c o (ag_iend s))
              else Next s) in
    let! _ := touch "inputs" ninp i in
    Next s.

Definition aggregate (fx : bool) (nval : Z) (aggindex : list Z) (ninp : Z)
    (outputs : list bool) (iend : list (option Z)) : step aggst :=
  let s0 := mkAgg 0 0 outputs iend in
  if fx && (nval <? 1) then
    let! e := wr "iend" iend 0 (Some 0) in Ret 0 (mkAgg 0 0 outputs e)
  else
  let! ia0 := rd "aggindex" 0 aggindex 0 in
  finish 0 (
    do! s := forZ 0 nval (agg_body nval aggindex ninp) (mkAgg ia0 0 outputs iend) in
    let! o := mark "outputs" (ag_out s) (ag_count s) in
    let! e := wr "iend" (ag_iend s) 0 (Some (ag_count s + 1)) in
    Next (mkAgg (ag_prev s) (ag_count s) o e)).

(* ---- c_flathomogen(nval, maxnan, aggindex, inputs, outputs) *)
Record fhst := mkFh {
  fh_prev : Z;        (* iaprev *)
  fh_start : Z;       (* start *)
  fh_out : list bool
}.

Definition fh_flush (ninp : Z) (lo hi : Z) (s : fhst) : step fhst :=
  forZ lo hi (fun j s =>
    let! _ := touch "inputs" ninp j in
    let! o := mark "outputs" (fh_out s) j in
    Next (mkFh (fh_prev s) (fh_start s) o)) s.

Definition fh_body (aggindex : list Z) (ninp : Z) (i : Z) (s : fhst) : step fhst :=
  let! ia := rd "aggindex" 0 aggindex i in
  if ia <? fh_prev s then Ret 1 s
  else
    do! s := (if negb (ia =? fh_prev s) then
                do! s := fh_flush ninp (fh_start s) i s in
                Next (mkFh ia i (fh_out s))
              else Next s) in
    let! _ := touch "inputs" ninp i in
    Next s.

Definition flathomogen (fx : bool) (nval : Z) (aggindex : list Z) (ninp : Z)
    (outputs : list bool) : step fhst :=
  if fx && (nval <? 1) then Ret 0 (mkFh 0 0 outputs)
  else
  let! ia0 := rd "aggindex" 0 aggindex 0 in
  finish 0 (
    do! s := forZ 0 nval (fh_body aggindex ninp) (mkFh ia0 0 outputs) in
    (* after the loop i = max nval 0 *)
    fh_flush ninp (fh_start s) (Z.max nval 0) s).

(* ================================================================== *)
(* kernels whose control flow depends on floating-point comparisons     *)

Section Float.
Context {T : Type} (N : NumOps T).

Definition two : T := nofZ N 2.

(* ---- c_qualitycontrol.c : c_islin(nval, thresh, tol, npoints, data, islin) *)
Record ilst := mkIl {
  il_prec : T; il_cur : T;       (* vprec, vcur *)
  il_count : Z; il_start : Z; il_type : Z;
  il_out : list (option Z)       (* islin *)
}.

Definition il_nonan (thresh v : T) : T :=
  if nisnan N v then nsub N thresh (n1 N) else v.

Definition il_body (thresh tol : T) (npoints : Z) (data : list T) (i : Z) (s : ilst) : step ilst :=
  let! vnext := rd "data" (n0 N) data i in
  let dist := nabs N (nsub N (il_cur s) (ndiv N (nadd N (il_prec s) vnext) two)) in
  let! o := wr "islin" (il_out s) i (Some 0) in
  (* ~isnan(dist) is a bitwise complement of 0 or 1: always non-zero *)
  if nltb N dist tol && nltb N thresh (il_cur s) then
    let start := if il_count s =? 0 then i - 2 else il_start s in
    let lintype := if nltb N (nabs N (nsub N vnext (il_prec s))) tol then 2 else 1 in
    Next (mkIl (il_cur s) vnext (il_count s + 1) start lintype o)
  else
    do! s' := (if npoints <=? il_count s then
                 forZ (il_start s) i (fun k s' =>
                   let! o' := wr "islin" (il_out s') k (Some (il_type s)) in
                   Next (mkIl (il_prec s') (il_cur s') (il_count s') (il_start s') (il_type s') o'))
                   (mkIl (il_prec s) (il_cur s) (il_count s) (il_start s) (il_type s) o)
               else Next (mkIl (il_prec s) (il_cur s) (il_count s) (il_start s) (il_type s) o)) in
    Next (mkIl (il_cur s) vnext 0 (il_start s') (il_type s') (il_out s')).

Definition islin (fx : bool) (nval : Z) (thresh tol : T) (npoints : Z) (data : list T)
    (out : list (option Z)) : step ilst :=
  let dummy := mkIl (n0 N) (n0 N) 0 0 1 out in
  if fx && (nval <? 3) then
    finish 0 (forZ 0 nval (fun i s =>
      let! o := wr "islin" (il_out s) i (Some 0) in
      Next (mkIl (il_prec s) (il_cur s) 0 0 1 o)) dummy)
  else
  let! v0 := rd "data" (n0 N) data 0 in
  let! v1 := rd "data" (n0 N) data 1 in
  let! o := wr "islin" out 0 (Some 0) in
  let! o := wr "islin" o 1 (Some 0) in
  finish 0 (forZ 2 nval (il_body thresh tol npoints data)
              (mkIl (il_nonan thresh v0) (il_nonan thresh v1) 0 0 1 o)).

(* ---- c_baseflow.c : c_eckhardt(nval, timestep_type, thresh, tau, BFI_max, inputs, outputs).
   The filter values are not modelled (exp); the parameter checks and the accesses are. *)
Definition eckhardt (fx : bool) (nval timestep_type : Z) (thresh bfi : T) (ninp : Z)
    (outputs : list bool) : step (list bool) :=
  if negb (timestep_type =? 0) && negb (timestep_type =? 1) then Ret 33 outputs   (* EDOM *)
  else if nltb N thresh (n0 N) || nltb N (n1 N) thresh then Ret 33 outputs
  else if nltb N bfi (n0 N) || nltb N (n1 N) bfi then Ret 33 outputs
  else if fx && (nval <? 1) then Ret 0 outputs
  else
  let! _ := touch "inputs" ninp 0 in
  let! o := mark "outputs" outputs 0 in
  finish 0 (forZ 1 nval (fun i o =>
    let! _ := touch "inputs" ninp i in
    let! o := mark "outputs" o i in
    Next o) o).

(* ---- c_var2h.c : c_var2h(nvalvar, nvalh, nbsec_per_period, rainfall, display, maxgapsec,
                            varsec, varvalues, hstartsec, hvalues).
   Modelled: positioning loop, period loop, inner walk with varindex; the hourly values
   themselves are not (C14).  [nvals] = length of varvalues. *)
Record vhst := mkVh {
  vh_idx : Z;              (* varindex *)
  vh_t1 : T;               (* t1 *)
  vh_out : list bool       (* hvalues: written marks *)
}.

(* positioning: while(varsec[varindex] <= hstartsec) varindex++   (fx: bounded by nvalvar) *)
Definition vh_position (fx : bool) (nvalvar : Z) (varsec : list Z) (hstartsec : Z) : step Z :=
  while_loop (Datatypes.S (Datatypes.S (Z.to_nat nvalvar))) (fun v =>
    if fx && negb (v <? nvalvar) then Brk v
    else
      let! t := rd "varsec" 0 varsec v in
      if t <=? hstartsec then Next (v + 1) else Brk v) 0.

Definition vh_inner (nvalvar : Z) (varsec : list Z) (nvals : Z) (endt : T) (s : vhst) : step vhst :=
  if negb (nltb N (vh_t1 s) endt) then Brk s
  else
    let! t2z := rd "varsec" 0 varsec (vh_idx s + 1) in
    let! _ := touch "varvalues" nvals (vh_idx s + 1) in
    let t2 := nofZ N t2z in
    if nltb N t2 (vh_t1 s) then Ret 1 s
    else
      let v := vh_idx s + 1 in
      if nvalvar <=? v + 1 then Brk (mkVh v (vh_t1 s) (vh_out s))
      else Next (mkVh v t2 (vh_out s)).

Definition vh_period (fx : bool) (nvalvar nbsec : Z) (varsec : list Z) (nvals hstartsec : Z)
    (i : Z) (s : vhst) : step vhst :=
  let! prod := (if fx then chk64 (i * nbsec) else mul32 i nbsec) in
  let! st := chk64 (hstartsec + prod) in
  let start := nofZ N st in
  let endt := nadd N start (nofZ N nbsec) in
  let! t1z := rd "varsec" 0 varsec (vh_idx s) in
  let! _ := touch "varvalues" nvals (vh_idx s) in
  let! o := mark "hvalues" (vh_out s) i in
  do! s := while_loop (Datatypes.S (Z.to_nat nvalvar)) (vh_inner nvalvar varsec nvals endt)
             (mkVh (vh_idx s) (nofZ N t1z) o) in
  let! o := mark "hvalues" (vh_out s) i in
  Next (mkVh (vh_idx s - 1) (vh_t1 s) o).

Definition var2h (fx : bool) (nvalvar nvalh nbsec rainfall : Z) (varsec : list Z) (nvals : Z)
    (hstartsec : Z) (hvalues : list bool) : step vhst :=
  let s0 := mkVh 0 (n0 N) hvalues in
  if (rainfall <? 0) || (1 <? rainfall) then Ret 1 s0
  else if negb (nbsec =? VAR2H_PERIOD_A) && negb (nbsec =? VAR2H_PERIOD_B) then Ret 1 s0
  else
  match vh_position fx nvalvar varsec hstartsec with
  | Fail e => Fail e
  | Ret c _ => Ret c s0
  | Next v | Brk v =>
      let v := v - 1 in
      if v <? 0 then Ret 1 s0
      else if fx && (nvalvar <=? v + 1) then
        finish 0 (forZ 0 (nvalh - 1) (fun i s =>
          let! o := mark "hvalues" (vh_out s) i in Next (mkVh (vh_idx s) (vh_t1 s) o))
          (mkVh v (n0 N) hvalues))
      else
        finish 0 (forZ 0 (nvalh - 1) (vh_period fx nvalvar nbsec varsec nvals hstartsec)
                    (mkVh v (n0 N) hvalues))
  end.

End Float.

Arguments mkIl {T}. Arguments il_prec {T}. Arguments il_cur {T}. Arguments il_count {T}.
Arguments il_start {T}. Arguments il_type {T}. Arguments il_out {T}.
Arguments mkVh {T}. Arguments vh_idx {T}. Arguments vh_t1 {T}. Arguments vh_out {T}.
