(* Model of hydrodiy.stat.metrics.crps:
     - src/hydrodiy/stat/metrics.py   __check_ensemble_data (row filter), crps (wrapper)
     - src/hydrodiy/stat/c_crps.c     c_crps (Hersbach 2000 decomposition)
   Generic over [NumOps]; for every accumulator the order of the floating-point
   operations is that of the C text.

   Layout of the transcription.  The C kernel has one loop over the forecasts
   that updates three disjoint groups of variables: (1) the sortedness test
   that returns EDOM, (2) the bin accumulators a[], b[], o[0], o[ncol],
   (3) the uncertainty.  No group reads a variable of another one, so the
   model runs them as three passes over the forecasts; each accumulator
   receives exactly the same sequence of operations as in C.  The final loop
   over the bins is transcribed as: build the table rows in bin order, then
   accumulate crps / reliability / potential over the rows in bin order.

   [pow(x,2)] is [x*x] (gcc folds it; glibc's pow is exact on squares up to
   the final rounding, which is the rounding of x*x).

   The kernel with [clamp = false] is the code of the pinned commit; with
   [clamp = true] it is the repaired code (outlier frequencies o[0], o[ncol]
   limited to 1 before the final loop). *)
From Coq Require Import ZArith Bool List.
From Hy Require Import Base.Num Gen.ConstsC03.
Import ListNotations.

Section Crps.
Context {T : Type} (N : NumOps T).

(* one forecast: observation, ensemble members *)
Definition frow := (T * list T)%type.

(* ---- metrics.py:47-53  idx = notnull(obs) & notnull(ens).any(axis=1) ---- *)
Definition row_valid (r : frow) : bool :=
  negb (nisnan N (fst r)) && existsb (fun x => negb (nisnan N x)) (snd r).

(* ---- c_crps.c:100-101  qsort(ensemb, ncol, ..., compare) ----
   any correct sort gives the same sequence of values on NaN-free data *)
Fixpoint insert (x : T) (l : list T) : list T :=
  match l with
  | [] => [x]
  | y :: l' => if nleb N x y then x :: l else y :: insert x l'
  end.
Definition sort (l : list T) : list T := fold_right insert [] l.

(* ---- c_crps.c:112  if(ensemb[j+1]<ensemb[j]) return EDOM ---- *)
Fixpoint unsorted (e : list T) : bool :=
  match e with
  | x :: ((y :: _) as e') => nltb N y x || unsorted e'
  | _ => false
  end.

(* ---- c_crps.c:125-135  bin j+1 between ensemb[j] and ensemb[j+1] ---- *)
Definition bin_upd (y w ej ej1 : T) (p : T * T) : T * T :=
  let d := nmul N (nsub N ej1 ej) w in
  let b1 := if nleb N y ej then nadd N (snd p) d else snd p in
  let a1 := if nleb N ej1 y then nadd N (fst p) d else fst p in
  if nltb N ej y && nltb N y ej1
  then (nadd N a1 (nmul N (nsub N y ej) w), nadd N b1 (nmul N (nsub N ej1 y) w))
  else (a1, b1).

(* interior bins 1..ncol-1 as a list of (a[j], b[j]) *)
Fixpoint bins_upd (y w : T) (e : list T) (ab : list (T * T)) : list (T * T) :=
  match e, ab with
  | ej :: ((ej1 :: _) as e'), p :: ab' => bin_upd y w ej ej1 p :: bins_upd y w e' ab'
  | _, _ => ab
  end.

Record acc := mkAcc {
  ac_ab : list (T * T);      (* (a[j], b[j]), j = 1..ncol-1 *)
  ac_b0 : T;                 (* b[0] *)
  ac_aN : T;                 (* a[ncol] *)
  ac_o0 : T;                 (* o[0] *)
  ac_oN : T }.               (* o[ncol] *)

Definition acc0 (nint : nat) : acc :=
  mkAcc (repeat (n0 N, n0 N) nint) (n0 N) (n0 N) (n0 N) (n0 N).

(* ---- c_crps.c:108-152, one forecast (ensemble already sorted) ---- *)
Definition row_step (w : T) (s : acc) (r : frow) : acc :=
  let y := fst r in
  let e := snd r in
  let x0 := hd (n0 N) e in
  let xl := last e (n0 N) in
  mkAcc (bins_upd y w e (ac_ab s))
        (if nltb N y x0 then nadd N (ac_b0 s) (nmul N (nsub N x0 y) w) else ac_b0 s)
        (if nleb N xl y then nadd N (ac_aN s) (nmul N (nsub N y xl) w) else ac_aN s)
        (if nltb N y x0 then nadd N (ac_o0 s) w else ac_o0 s)
        (if nltb N y xl then nadd N (ac_oN s) w else ac_oN s).

(* ---- c_crps.c:154-164  uncertainty, for(k<i) += weight*weight_k*|obs[k]-obs[i]| ---- *)
Definition unc_row (w y : T) (seen : list T) (u : T) : T :=
  fold_left (fun u yk => nadd N u (nmul N (nmul N w w) (nabs N (nsub N yk y)))) seen u.

Fixpoint unc_loop (w : T) (seen rest : list T) (u : T) : T :=
  match rest with
  | [] => u
  | y :: rest' => unc_loop w (seen ++ [y]) rest' (unc_row w y seen u)
  end.

(* ---- c_crps.c:169-211  final loop over the bins ---- *)
Record trow := mkTrow { t_p : T; t_a : T; t_b : T; t_g : T; t_o : T; t_r : T; t_c : T }.

Definition sq (x : T) : T := nmul N x x.

Definition mkrow (p a b g o : T) : trow :=
  mkTrow p a b g o
         (nmul N g (sq (nsub N o p)))                      (* g*pow(o-p,2) *)
         (nmul N (nmul N g o) (nsub N (n1 N) o)).          (* g*o*(1-o) *)

Definition prob (j m : Z) : T := ndiv N (nofZ N j) (nofZ N m).

Definition row_first (m : Z) (b0 o0 : T) : trow :=
  let g := if negb (neqb N o0 (n0 N)) then ndiv N b0 o0 else n0 N in
  mkrow (prob 0 m) (n0 N) b0 g o0.

Definition row_last (m : Z) (aN oN : T) : trow :=
  let g := if negb (neqb N oN (n1 N)) then ndiv N aN (nsub N (n1 N) oN) else n0 N in
  mkrow (prob m m) aN (n0 N) g oN.

Fixpoint rows_interior (m j : Z) (ab : list (T * T)) : list trow :=
  match ab with
  | [] => []
  | p :: ab' =>
      let g := nadd N (fst p) (snd p) in
      mkrow (prob j m) (fst p) (snd p) g (ndiv N (snd p) g)
        :: rows_interior m (j + 1)%Z ab'
  end.

(* repaired code: if(o[0]>1.0) o[0]=1.0; if(o[ncol]>1.0) o[ncol]=1.0; *)
Definition clamp1 (clamp : bool) (o : T) : T :=
  if clamp && nltb N (n1 N) o then n1 N else o.

Definition table (clamp : bool) (m : Z) (s : acc) : list trow :=
  row_first m (ac_b0 s) (clamp1 clamp (ac_o0 s))
    :: rows_interior m 1 (ac_ab s)
    ++ [row_last m (ac_aN s) (clamp1 clamp (ac_oN s))].

(* crps_decompos[0] += a[j]*pow(pj,2)+b[j]*pow(1-pj,2) *)
Definition crps_term (r : trow) : T :=
  nadd N (nmul N (t_a r) (sq (t_p r)))
         (nmul N (t_b r) (sq (nsub N (n1 N) (t_p r)))).

Definition sum_crps (tb : list trow) : T :=
  fold_left (fun s r => nadd N s (crps_term r)) tb (n0 N).
(* if(g[j]>0) { crps_decompos[1] += r[j]; crps_potential += c[j]; } *)
Definition sum_reli (tb : list trow) : T :=
  fold_left (fun s r => if nltb N (n0 N) (t_g r) then nadd N s (t_r r) else s) tb (n0 N).
Definition sum_pot (tb : list trow) : T :=
  fold_left (fun s r => if nltb N (n0 N) (t_g r) then nadd N s (t_c r) else s) tb (n0 N).

Record crout := mkCrout {
  o_crps : T; o_reli : T; o_resol : T; o_unc : T; o_pot : T;
  o_table : list trow }.

Definition finish (clamp : bool) (m : Z) (s : acc) (unc : T) : crout :=
  let tb := table clamp m s in
  let pot := sum_pot tb in
  mkCrout (sum_crps tb) (sum_reli tb) (nsub N unc pot) unc pot tb.

(* point weight: 1/(double)nval, or weights_vector[i] (= 0, the wrapper passes
   zeros) when use_weights == 1 *)
Definition weight (n : Z) : T :=
  if (CRPS_USE_WEIGHTS =? 1)%Z then n0 N else ndiv N (n1 N) (nofZ N n).

Definition presort (e : list T) : list T :=
  if (CRPS_IS_SORTED =? 0)%Z then sort e else e.

(* None = ValueError ("No valid data", or the kernel's EDOM) *)
Definition crps_gen (clamp : bool) (rows : list frow) : option crout :=
  match filter row_valid rows with
  | [] => None
  | (r0 :: _) as v =>
      let m := length (snd r0) in
      let w := weight (Z.of_nat (length v)) in
      let sorted := map (fun r => (fst r, presort (snd r))) v in
      if existsb (fun r => unsorted (snd r)) sorted then None
      else
        let s := fold_left (row_step w) sorted (acc0 (m - 1)) in
        let unc := unc_loop w [] (map fst v) (n0 N) in
        Some (finish clamp (Z.of_nat m) s unc)
  end.

Definition crps : list frow -> option crout := crps_gen true.
Definition crps_pinned : list frow -> option crout := crps_gen false.

End Crps.

(* ---- correspondence-check glue (binary64 instance) ---- *)
From Coq Require Import PrimFloat.

(* expected: None = ValueError; Some (decomposition [5], table rows [7 each]) *)
Record crcase := {
  cr_rows : list (float * list float);
  cr_expect : option (list float * list (list float)) }.

Definition trow_list (r : trow) : list float :=
  [t_p r; t_a r; t_b r; t_g r; t_o r; t_r r; t_c r].

Definition crout_same (o : crout) (e : list float * list (list float)) : bool :=
  list_same f_same [o_crps o; o_reli o; o_resol o; o_unc o; o_pot o] (fst e) &&
  list_same (list_same f_same) (map trow_list (o_table o)) (snd e).

Definition cr_ok (c : crcase) : bool :=
  match crps F64 (cr_rows c), cr_expect c with
  | None, None => true
  | Some o, Some e => crout_same o e
  | _, _ => false
  end.

(* Second-chance comparator, applied by the harness only to the cases on which
   [cr_ok] is false: same shape and NaN pattern, every number within
   1e-11*max(1,|expected|).  A case that passes it is counted as "rounding
   drift" (e.g. a re-associated sum in the code), not as a disagreement. *)
Definition cr_tol : float := 0x1.5fd7fe1796495p-37.   (* 1e-11 *)

Definition crout_close (o : crout) (e : list float * list (list float)) : bool :=
  list_same (f_close cr_tol) [o_crps o; o_reli o; o_resol o; o_unc o; o_pot o] (fst e) &&
  list_same (list_same (f_close cr_tol)) (map trow_list (o_table o)) (snd e).

Definition cr_ok_close (c : crcase) : bool :=
  match crps F64 (cr_rows c), cr_expect c with
  | None, None => true
  | Some o, Some e => crout_close o e
  | _, _ => false
  end.

(* the same against the kernel of the pinned commit (used for the recorded witness) *)
Definition cr_ok_pinned (c : crcase) : bool :=
  match crps_pinned F64 (cr_rows c), cr_expect c with
  | None, None => true
  | Some o, Some e => crout_same o e
  | _, _ => false
  end.
