(* C05 - index-level models of the stat kernels (c_armodels.c, c_crps.c,
   c_dscore.c, c_andersondarling.c + AnDarl.c, c_paretofront.c) and of the date
   helpers of c_dateutils.c, in the error monad of Model/Safety.v.

   None of these kernels had a memory-safety defect in the pinned code: there is
   no [fx] flag.  Values are modelled only where they decide a branch that leads
   to a different set of accesses (NaN parameter checks, the sortedness test of
   c_crps, the range/order tests of ADtest).  qsort is not modelled as an
   algorithm: [c_crps] is given the ensemble in the order qsort leaves it
   (ascending: the comparator is a total order on non-NaN doubles; rows holding
   NaN are excluded by the generator), [c_ad_test] likewise.
   No proofs in this file. *)
From Coq Require Import ZArith Bool List String.
From Hy Require Import Base.Num Gen.Consts Gen.ConstsC05 Model.Safety.
Import ListNotations.
Open Scope Z_scope.

Section FloatStat.
Context {T : Type} (N : NumOps T).

(* ================================================================== *)
(* c_armodel_sim / c_armodel_residual (same access pattern)             *)
(*   (nval, nparams, sim_mean, sim_ini, params, innov|inputs, outputs)  *)

(* [resid = true]: c_armodel_residual, which has one more loop over the lags when the
   input is NaN *)
Definition armodel (resid : bool) (nval nparams : Z) (mean ini : T) (params inputs : list T)
    (outputs : list bool) : step (list bool) :=
  if (ARMODEL_NPARAMSMAX <? nparams) || (nparams <=? 0) then Ret 1 outputs
  else
  (* double prev_centered[ARMODEL_NPARAMSMAX] *)
  let prev0 := repeat false (Z.to_nat ARMODEL_PREV_SIZE) in
  do! _ := forZ 0 nparams (fun k (o : list bool) =>
             let! p := rd "params" (n0 N) params k in
             if nisnan N p then Ret 1 o else Next o) outputs in
  if nisnan N mean then Ret 1 outputs
  else if nisnan N ini then Ret 1 outputs
  else
  match forZ 0 nparams (fun k prev => let! prev := mark "prev_centered" prev k in Next prev) prev0 with
  | Fail e => Fail e
  | Ret c _ => Ret c outputs
  | Next prev | Brk prev =>
    finish 0 (forZ 0 nval (fun i o =>
      let! v := rd "inputs" (n0 N) inputs i in
      do! _ := (if resid && nisnan N (nsub N v mean) then
                  forZ 0 nparams (fun k (o : list bool) =>
                    let! _ := rd "params" (n0 N) params k in
                    let! _ := rd "prev_centered" false prev k in Next o) o
                else Next o) in
      (* for(k = nparams-1; k >= 0; k--) *)
      do! _ := forZ 0 nparams (fun kk (o : list bool) =>
                 let k := nparams - 1 - kk in
                 let! _ := rd "prev_centered" false prev k in
                 let! _ := rd "params" (n0 N) params k in
                 let! _ := (if 0 <? k then rd "prev_centered" false prev (k - 1) else Ok false) in
                 let! _ := mark "prev_centered" prev k in Next o) o in
      let! o := mark "outputs" o i in Next o) outputs)
  end.

(* ================================================================== *)
(* c_crps(nval, ncol, use_weights, is_sorted, obs, sim, weights_vector,
          reliability_table[(ncol+1) x 7], crps_decompos[5])
   [sim] holds each row as the kernel sees it after its optional qsort. *)
Definition crps (nval ncol use_weights : Z) (nobs : Z) (sim : list T) (nweights : Z)
    (table : list bool) (ndec : Z) : step (list bool) :=
  (* seven malloc((ncol+1)*sizeof(double)) *)
  let! nloc := chk32 (ncol + 1) in
  let ens0 := repeat (n0 N) (Z.to_nat nloc) in
  do! _ := forZ 0 (ncol + 1) (fun j (u : list bool) =>
             let! _ := touch "a,b,g,o" nloc j in Next u) table in
  do! _ := forZ 0 nval (fun i (u : list bool) =>
      (* copy of the row *)
      match forZ 0 ncol (fun j ens =>
              let! ij := mul32 ncol i in
              let! v := rd "sim" (n0 N) sim (ij + j) in
              let! ens := wr "ensemb" ens j v in Next ens) ens0 with
      | Fail e => Fail e
      | Ret c _ => Ret c u
      | Next ens | Brk ens =>
        let! _ := (if use_weights =? 1 then touch "weights_vector" nweights i else Ok tt) in
        do! _ := forZ 0 (ncol - 1) (fun j (u : list bool) =>
            let! e1 := rd "ensemb" (n0 N) ens (j + 1) in
            let! e0 := rd "ensemb" (n0 N) ens j in
            if nltb N e1 e0 then Ret 33 u       (* EDOM *)
            else
              let! _ := touch "obs" nobs i in
              let! _ := touch "a,b" nloc (j + 1) in Next u) u in
        let! _ := touch "obs" nobs i in
        let! _ := rd "ensemb" (n0 N) ens 0 in
        let! _ := touch "b" nloc 0 in
        let! _ := rd "ensemb" (n0 N) ens (ncol - 1) in
        let! _ := touch "a" nloc ncol in
        let! _ := touch "o" nloc 0 in
        let! _ := touch "o" nloc ncol in
        forZ 0 i (fun k (u : list bool) =>
          let! _ := touch "obs" nobs k in
          let! _ := (if use_weights =? 1 then touch "weights_vector" nweights k else Ok tt) in
          Next u) u
      end) table in
  do! t := forZ 0 (ncol + 1) (fun j (t : list bool) =>
    let! _ := touch "a,b,g,o,r,c" nloc j in
    let! j7 := mul32 j CRPS_TABLE_NCOLS in
    let! t := mark "reliability_table" t j7 in
    let! t := mark "reliability_table" t (j7 + 1) in
    let! t := mark "reliability_table" t (j7 + 2) in
    let! t := mark "reliability_table" t (j7 + 3) in
    let! t := mark "reliability_table" t (j7 + 4) in
    let! t := mark "reliability_table" t (j7 + 5) in
    let! t := mark "reliability_table" t (j7 + 6) in
    let! _ := touch "crps_decompos" ndec 0 in
    let! _ := touch "crps_decompos" ndec 1 in
    Next t) table in
  let! _ := touch "crps_decompos" ndec 2 in
  let! _ := touch "crps_decompos" ndec 3 in
  let! _ := touch "crps_decompos" ndec 4 in
  Ret 0 t.

(* ================================================================== *)
(* c_ensrank(eps, nval, ncol, sim, fmat[nval x nval], ranks)            *)
Definition ensrank (eps : T) (nval ncol : Z) (nsim : Z) (fmat ranks : list bool)
  : step (list bool * list bool) :=
  let st := (fmat, ranks) in
  if nltb N eps (ndiv N (n1 N) (nofZ N (10 ^ 20))) then Ret 1 st
  else if (ncol <=? 0) || (nval <=? 0) then Ret 1 st
  else
  let! n2 := mul32 2 ncol in
  let ninit := if nval <? n2 then n2 else nval in
  do! st := forZ 0 ninit (fun j (u : list bool * list bool) =>
      let! _ := (if j <? n2 then touch "ensemb" n2 j else Ok tt) in
      if j <? nval then let! r := mark "ranks" (snd u) j in Next (fst u, r) else Next u) st in
  finish 0 (forZ 0 nval (fun i1 (u : list bool * list bool) =>
    forZ (i1 + 1) nval (fun i2 (u : list bool * list bool) =>
      do! _ := forZ 0 n2 (fun j (u : list bool * list bool) =>
          let! idx := (if j <? ncol then
                         let? a := mul32 ncol i1 in Ok (a + j)
                       else
                         let? a := mul32 ncol (i2 - 1) in Ok (a + j)) in
          let! _ := touch "sim" nsim idx in
          let! _ := touch "ensemb" n2 j in Next u) u in
      let! _ := touch "ensemb" n2 0 in
      let! _ := touch "ensemb" n2 1 in
      do! _ := forZ 0 n2 (fun j (u : list bool * list bool) =>
          let! _ := touch "ensemb" n2 j in
          let! _ := (if j <? n2 - 1 then touch "ensemb" n2 (j + 1) else Ok tt) in Next u) u in
      let! a := mul32 i1 nval in
      let! f := mark "fmat" (fst u) (a + i2) in
      let! r := mark "ranks" (snd u) i1 in
      let! r := mark "ranks" r i2 in
      Next (f, r)) u) st).

(* ================================================================== *)
(* c_ad_test(nval, unifdata, outputs[2]) -> ADtest(n, x, outputs); [x] sorted by qsort *)
Definition adtest (n : Z) (x : list T) (outputs : list bool) : step (list bool) :=
  let! o := mark "outputs" outputs 0 in
  let! o := mark "outputs" o 1 in
  match forZ 0 n (fun i (prev : T) =>
      let! xi := rd "unifdata" (n0 N) x i in
      if nltb N xi (n0 N) || nltb N (n1 N) xi then Ret 1 prev
      else if nisnan N xi then Ret 1 prev
      else if nltb N xi prev then Ret 1 prev
      else
        let! _ := rd "unifdata" (n0 N) x (n - 1 - i) in
        Next xi) (nopp N (ndiv N (n1 N) (nofZ N (10 ^ 300)))) with
  | Fail e => Fail e
  | Ret c _ => Ret c o
  | Next _ | Brk _ =>
      let! o := mark "outputs" o 0 in
      let! o := mark "outputs" o 1 in
      Ret 0 o
  end.

(* ================================================================== *)
(* c_paretofront(nval, ncol, orientation, data, isdominated): the domination test reads
   data[ncol*j+k], data[ncol*i+k]; whether the j loop breaks early depends on the values *)
Definition paretofront (nval ncol : Z) (orient : T) (data : list T) (isdom : list Z)
  : step (list Z) :=
  finish 0 (forZ 0 nval (fun i out =>
    let! out := wr "isdominated" out i 0 in
    forZ 0 nval (fun j out =>
      if i =? j then Next out
      else
        match forZ 0 ncol (fun k (dom : Z) =>
                let! aj := mul32 ncol j in
                let! ai := mul32 ncol i in
                let! dj := rd "data" (n0 N) data (aj + k) in
                let! di := rd "data" (n0 N) data (ai + k) in
                let diff := nsub N dj di in
                if nisnan N diff then Next dom
                else Next (dom * (if nltb N (n0 N) (nmul N orient diff) then 1 else 0))) 1 with
        | Fail e => Fail e
        | Ret c _ => Ret c out
        | Next dom | Brk dom =>
            if dom =? 1 then
              let! out := wr "isdominated" out i 1 in Brk out
            else Next out
        end) out) isdom).

End FloatStat.

(* ================================================================== *)
(* c_dateutils.c                                                        *)

Definition isleapyear (year : Z) : Z :=
  if (Z.rem year 4 =? 0) && (negb (Z.rem year 100 =? 0) || (Z.rem year 400 =? 0)) then 1 else 0.

(* int days_in_month[13] *)
Definition daysinmonth (year month : Z) : res Z :=
  if (month <? 1) || (12 <? month) then Ok (-1)
  else
    let? _ := touch "days_in_month" DAYS_IN_MONTH_SIZE month in
    let n := nth (Z.to_nat month) [0; 31; 28; 31; 30; 31; 30; 31; 31; 30; 31; 30; 31] 0 in
    Ok (if (isleapyear year =? 1) && (month =? 2) then n + 1 else n).

(* int day_of_year[13] *)
Definition dayofyear (month day : Z) : res Z :=
  if (month <? 1) || (12 <? month) then Ok (-1)
  else if (day <? 1) || (31 <? day) then Ok (-1)
  else
    let? _ := touch "day_of_year" DAY_OF_YEAR_SIZE month in
    let? r := chk32 (nth (Z.to_nat month) [0; 0; 31; 59; 90; 120; 151; 181; 212; 243; 273; 304; 334] 0 + day) in
    Ok r.

(* c_dateutils_add1month(int date[3]); [fx]: the repaired code returns an error instead of
   incrementing the year INT_MAX *)
Definition add1month (fx : bool) (date : list Z) : step (list Z) :=
  let! m := rd "date" 0 date 1 in
  let! y0 := rd "date" 0 date 0 in
  if fx && negb (m <? 12) && (y0 =? 2147483647) then Ret 1 date
  else
  let! date := (if m <? 12 then
                  let? m1 := chk32 (m + 1) in wr "date" date 1 m1
                else
                  let? date := wr "date" date 1 1 in
                  let? y := rd "date" 0 date 0 in
                  let? y1 := chk32 (y + 1) in
                  wr "date" date 0 y1) in
  let! y := rd "date" 0 date 0 in
  let! m := rd "date" 0 date 1 in
  let! nbday := daysinmonth y m in
  if nbday <? 0 then Ret 1 date
  else
    let! d := rd "date" 0 date 2 in
    if nbday <? d then let! date := wr "date" date 2 nbday in Ret 0 date
    else Ret 0 date.

(* c_dateutils_add1day(int date[3]) *)
Definition add1day (fx : bool) (date : list Z) : step (list Z) :=
  let! y := rd "date" 0 date 0 in
  let! m := rd "date" 0 date 1 in
  let! nbday := daysinmonth y m in
  if nbday <? 0 then Ret 1 date
  else
    let! d := rd "date" 0 date 2 in
    if d <? nbday then
      let! d1 := chk32 (d + 1) in
      let! date := wr "date" date 2 d1 in Ret 0 date
    else if d =? nbday then
      let! date := wr "date" date 2 1 in
      let! m := rd "date" 0 date 1 in
      if m <? 12 then
        let! m1 := chk32 (m + 1) in
        let! date := wr "date" date 1 m1 in Ret 0 date
      else
        let! y := rd "date" 0 date 0 in
        if fx && (y =? 2147483647) then Ret 1 date
        else
        let! date := wr "date" date 1 1 in
        let! y1 := chk32 (y + 1) in
        let! date := wr "date" date 0 y1 in Ret 0 date
    else Ret 1 date.

(* c_dateutils_comparedates(int date1[3], int date2[3]) *)
Definition comparedates (d1 d2 : list Z) : step unit :=
  let! a0 := rd "date1" 0 d1 0 in let! b0 := rd "date2" 0 d2 0 in
  if a0 <? b0 then Ret 1 tt else if b0 <? a0 then Ret (-1) tt else
  let! a1 := rd "date1" 0 d1 1 in let! b1 := rd "date2" 0 d2 1 in
  if a1 <? b1 then Ret 1 tt else if b1 <? a1 then Ret (-1) tt else
  let! a2 := rd "date1" 0 d1 2 in let! b2 := rd "date2" 0 d2 2 in
  if a2 <? b2 then Ret 1 tt else if b2 <? a2 then Ret (-1) tt else Ret 0 tt.

Section FloatDate.
Context {T : Type} (N : NumOps T).

(* c_dateutils_getdate(double day, int date[3]).  [fx]: the repaired code rejects a day that
   cannot be converted to an int before converting it. *)
Definition c1em4 : T := ndiv N (n1 N) (nofZ N 10000).   (* 1e-4, correctly rounded *)
Definition c1em2 : T := ndiv N (n1 N) (nofZ N 100).     (* 1e-2 *)

Definition getdate (fx : bool) (day : T) (date : list Z) : step (list Z) :=
  if fx && (nisnan N day || nltb N day (n0 N) || nltb N (nofZ N 2147483647) day) then Ret 1 date
  else
  let! year := cast32 (ntrunc N (nmul N day c1em4)) in
  let! m0 := cast32 (ntrunc N (nmul N day c1em2)) in
  let! y100 := chk32 (year * 100) in
  let! month := chk32 (m0 - y100) in
  let! d0 := cast32 (ntrunc N day) in
  let! y10000 := chk32 (year * 10000) in
  let! d1 := chk32 (d0 - y10000) in
  let! m100 := chk32 (month * 100) in
  let! nday := chk32 (d1 - m100) in
  if (month <? 0) || (12 <? month) then Ret 1 date
  else
    let! nbday := daysinmonth year month in
    if (nday <? 0) || (nbday <? nday) then Ret 1 date
    else
      let! date := wr "date" date 0 year in
      let! date := wr "date" date 1 month in
      let! date := wr "date" date 2 nday in
      Ret 0 date.

End FloatDate.
