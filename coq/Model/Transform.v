(* Model of hydrodiy/stat/transform.py (properties C01 and C02).

   The thirteen transform classes of the catalogue, each with the three closed
   forms `_forward`, `_backward`, `_jacobian` transcribed formula by formula
   over the real numbers, with the SAME branch tests as the code:
     abs(lam) > EPS                 -> Rltb EPS (Rabs lam)
     np.isclose(lam, b)             -> isclose lam b  (|lam-b| <= atol + rtol*|b|)
     w >= EPS (masks of Yeo-Johnson)-> Rleb EPS w (scalar conditional)
     np.where(c, v, np.nan)         -> if c then Some v else None
     raise ValueError (Softmax)     -> None
   Parameters are the values stored in the parameter/constant vectors;
   constructor options (mininu, minilam, base) are explicit arguments.  EPS, the
   vectors' bounds and numpy.isclose's tolerances come from Gen/ConstsC01.v
   (re-extracted from the working tree on every run).

   `None` stands for the NaN produced by an explicit np.where guard (or for the
   ValueError of Softmax) - never for the NaN numpy would produce for `log` of a
   negative number: the domain predicates of the theorems keep every argument
   of ln / Rpower / division inside its domain.

   Transcendental functions exist over R only, so there is no binary64
   instance: the correspondence check evaluates these definitions at literal
   arguments with the `interval` tactic (engine E3, Proofs/TransformTac.v) and
   compares with the value returned by the implementation.

   No proofs in this file. *)
From Coq Require Import Reals List Bool.
From Coquelicot Require Import Rbar.
From Hy Require Import Base.Num Gen.ConstsC01.
Import ListNotations.
Open Scope R_scope.

Definition EPS : R := TR_EPS.

(* numpy.isclose(a, b) for finite a, b (b is the reference value) *)
Definition isclose (a b : R) : bool :=
  Rleb (Rabs (a - b)) (TR_ISCLOSE_ATOL + TR_ISCLOSE_RTOL * Rabs b).

(* np.sign *)
Definition Rsign (x : R) : R :=
  if Rltb 0 x then 1 else if Rltb x 0 then -1 else 0.

(* np.clip(v, lo, hi) = minimum(maximum(v, lo), hi) with possibly infinite bounds
   (what `Vector.values = [...]` does to the values it is given) *)
Definition clip_lo (lo : Rbar) (v : R) : R :=
  match lo with Finite l => Rmax v l | _ => v end.
Definition clip_hi (hi : Rbar) (v : R) : R :=
  match hi with Finite h => Rmin v h | _ => v end.
Definition vclip (lo hi : Rbar) (v : R) : R := clip_hi hi (clip_lo lo v).

Definition in_bounds (lo hi : Rbar) (v : R) : Prop :=
  Rbar_le lo (Finite v) /\ Rbar_le (Finite v) hi.

(* ------------------------------------------------------------------ *)
(* Identity                                                             *)
Definition id_fwd (x : R) : R := x.
Definition id_bwd (y : R) : R := y.
Definition id_jac (x : R) : R := 1.

(* ------------------------------------------------------------------ *)
(* Logit : params lower, logdelta                                       *)
Definition logit_fwd (lower logdelta x : R) : R :=
  let upper := lower + exp logdelta in
  let value := (x - lower) / (upper - lower) in
  ln (1 / (1 - value) - 1).

Definition logit_bwd (lower logdelta y : R) : R :=
  let upper := lower + exp logdelta in
  let bnd := 1 - 1 / (1 + exp y) in
  bnd * (upper - lower) + lower.

Definition logit_jac (lower logdelta x : R) : option R :=
  let upper := lower + exp logdelta in
  let value := (x - lower) / (upper - lower) in
  let value' := 1 / (upper - lower) / value / (1 - value) in
  if Rltb (lower + EPS) x && Rltb x (upper - EPS) then Some value' else None.

Definition logit_params_ok (lower logdelta : R) : Prop :=
  in_bounds TR_Logit_lower_min TR_Logit_lower_max lower /\
  in_bounds TR_Logit_logdelta_min TR_Logit_logdelta_max logdelta.

(* ------------------------------------------------------------------ *)
(* Log : constructor options mininu, base ; param nu                    *)
Definition log_basefactor (base : option R) : R :=
  match base with None => 1 | Some b => ln b end.

Definition log_fwd (bf nu x : R) : R := ln (x + nu) / bf.
Definition log_bwd (bf nu y : R) : R := exp (bf * y) - nu.
Definition log_jac (mininu bf nu x : R) : option R :=
  if Rltb mininu (x + nu) then Some (1 / (x + nu) / bf) else None.

(* any logarithm base: positive and different from 1 *)
Definition log_base_ok (base : option R) : Prop :=
  match base with None => True | Some b => 0 < b /\ b <> 1 end.
Definition log_params_ok (mininu nu : R) : Prop :=
  in_bounds (TR_Log_nu_min mininu) (TR_Log_nu_max mininu) nu.

(* ------------------------------------------------------------------ *)
(* BoxCox2 : constructor options mininu, minilam ; params nu, lam       *)
Definition bc2_fwd (nu lam x : R) : R :=
  if Rltb EPS (Rabs lam) then (Rpower (x + nu) lam - 1) / lam
  else ln (x + nu).

Definition bc2_bwd (nu lam y : R) : R :=
  if Rltb EPS (Rabs lam) then
    let u := lam * y + 1 in Rpower u (1 / lam) - nu
  else exp y - nu.

Definition bc2_jac (mininu nu lam x : R) : option R :=
  if Rltb EPS (Rabs lam) then
    (if Rltb mininu (x + nu) then Some (Rpower (x + nu) (lam - 1)) else None)
  else
    (if Rltb mininu (x + nu) then Some (1 / (x + nu)) else None).

Definition bc2_params_ok (mininu minilam nu lam : R) : Prop :=
  in_bounds (TR_BoxCox2_nu_min mininu minilam) (TR_BoxCox2_nu_max mininu minilam) nu /\
  in_bounds (TR_BoxCox2_lam_min mininu minilam) (TR_BoxCox2_lam_max mininu minilam) lam.

(* `self.BC.params.values = [nu, lam]` : the inner BoxCox2 (built with the same
   mininu, minilam) clips what it is given to its own bounds *)
Definition bc2_sync_nu (mininu minilam nu : R) : R :=
  vclip (TR_BoxCox2_nu_min mininu minilam) (TR_BoxCox2_nu_max mininu minilam) nu.
Definition bc2_sync_lam (mininu minilam lam : R) : R :=
  vclip (TR_BoxCox2_lam_min mininu minilam) (TR_BoxCox2_lam_max mininu minilam) lam.

(* ------------------------------------------------------------------ *)
(* BoxCox1lam : param lam, constant nu ; BoxCox1nu : param nu, constant lam.
   Both delegate to the inner BoxCox2 after re-synchronising its parameters. *)
Definition bc1lam_fwd (mininu minilam nu lam x : R) : R :=
  bc2_fwd (bc2_sync_nu mininu minilam nu) (bc2_sync_lam mininu minilam lam) x.
Definition bc1lam_bwd (mininu minilam nu lam y : R) : R :=
  bc2_bwd (bc2_sync_nu mininu minilam nu) (bc2_sync_lam mininu minilam lam) y.
Definition bc1lam_jac (mininu minilam nu lam x : R) : option R :=
  bc2_jac mininu (bc2_sync_nu mininu minilam nu) (bc2_sync_lam mininu minilam lam) x.

Definition bc1lam_params_ok (mininu minilam nu lam : R) : Prop :=
  in_bounds (TR_BoxCox1lam_nu_min mininu minilam) (TR_BoxCox1lam_nu_max mininu minilam) nu /\
  in_bounds (TR_BoxCox1lam_lam_min mininu minilam) (TR_BoxCox1lam_lam_max mininu minilam) lam.

Definition bc1nu_fwd (mininu minilam nu lam x : R) : R :=
  bc2_fwd (bc2_sync_nu mininu minilam nu) (bc2_sync_lam mininu minilam lam) x.
Definition bc1nu_bwd (mininu minilam nu lam y : R) : R :=
  bc2_bwd (bc2_sync_nu mininu minilam nu) (bc2_sync_lam mininu minilam lam) y.
Definition bc1nu_jac (mininu minilam nu lam x : R) : option R :=
  bc2_jac mininu (bc2_sync_nu mininu minilam nu) (bc2_sync_lam mininu minilam lam) x.

Definition bc1nu_params_ok (mininu minilam nu lam : R) : Prop :=
  in_bounds (TR_BoxCox1nu_nu_min mininu minilam) (TR_BoxCox1nu_nu_max mininu minilam) nu /\
  in_bounds (TR_BoxCox1nu_lam_min mininu minilam) (TR_BoxCox1nu_lam_max mininu minilam) lam.

(* ------------------------------------------------------------------ *)
(* BoxCox2sym : params nu, lam ; odd extension of BoxCox2 through 0     *)
Definition bc2sym_fwd (mininu minilam nu lam x : R) : R :=
  let nu' := bc2_sync_nu mininu minilam nu in
  let lam' := bc2_sync_lam mininu minilam lam in
  let y0 := bc2_fwd nu' lam' 0 in
  Rsign x * (bc2_fwd nu' lam' (Rabs x) - y0).

Definition bc2sym_bwd (mininu minilam nu lam y : R) : R :=
  let nu' := bc2_sync_nu mininu minilam nu in
  let lam' := bc2_sync_lam mininu minilam lam in
  let y0 := bc2_fwd nu' lam' 0 in
  Rsign y * bc2_bwd nu' lam' (Rabs y + y0).

Definition bc2sym_jac (mininu minilam nu lam x : R) : option R :=
  bc2_jac mininu (bc2_sync_nu mininu minilam nu) (bc2_sync_lam mininu minilam lam) (Rabs x).

Definition bc2sym_params_ok (mininu minilam nu lam : R) : Prop :=
  in_bounds (TR_BoxCox2sym_nu_min mininu minilam) (TR_BoxCox2sym_nu_max mininu minilam) nu /\
  in_bounds (TR_BoxCox2sym_lam_min mininu minilam) (TR_BoxCox2sym_lam_max mininu minilam) lam.

(* ------------------------------------------------------------------ *)
(* YeoJohnson : params nu, scale, lam                                   *)
Definition yj_w (nu scale x : R) : R := nu + x * scale.

(* the transform of w = nu + x*scale *)
Definition yj_fwd_w (lam w : R) : R :=
  if Rleb EPS w then
    (if negb (isclose lam 0) then (Rpower (w + 1) lam - 1) / lam
     else ln (w + 1))
  else
    (if negb (isclose lam 2) then - (Rpower (- w + 1) (2 - lam) - 1) / (2 - lam)
     else - ln (- w + 1)).
Definition yj_fwd (nu scale lam x : R) : R := yj_fwd_w lam (yj_w nu scale x).

(* the value called x before `(x - nu) / scale` in _backward *)
Definition yj_bwd_w (lam y : R) : R :=
  if Rleb EPS y then
    (if negb (isclose lam 0) then Rpower (lam * y + 1) (1 / lam) - 1
     else exp y - 1)
  else
    (if negb (isclose lam 2) then - Rpower (- (2 - lam) * y + 1) (1 / (2 - lam)) + 1
     else - exp (- y) + 1).
Definition yj_bwd (nu scale lam y : R) : R := (yj_bwd_w lam y - nu) / scale.

Definition yj_jac_w (lam w : R) : R :=
  if Rleb EPS w then
    (if negb (isclose lam 0) then Rpower (w + 1) (lam - 1) else 1 / (w + 1))
  else
    (if negb (isclose lam 2) then Rpower (- w + 1) (1 - lam) else 1 / (- w + 1)).
Definition yj_jac (nu scale lam x : R) : R := yj_jac_w lam (yj_w nu scale x) * scale.

Definition yj_params_ok (nu scale lam : R) : Prop :=
  in_bounds TR_YeoJohnson_nu_min TR_YeoJohnson_nu_max nu /\
  in_bounds TR_YeoJohnson_scale_min TR_YeoJohnson_scale_max scale /\
  in_bounds TR_YeoJohnson_lam_min TR_YeoJohnson_lam_max lam.

(* forward switches on w >= EPS, backward on y >= EPS: both take the same side *)
Definition yj_same_side (lam w : R) : Prop := EPS <= w <-> EPS <= yj_fwd_w lam w.
Definition yj_same_side_bwd (lam y : R) : Prop := EPS <= y <-> EPS <= yj_bwd_w lam y.

(* ------------------------------------------------------------------ *)
(* LogSinh : params loga, logb ; constant xmax                          *)
Definition logsinh_guard (loga logb xmax x : R) : bool :=
  let a := exp loga in let b := exp logb in
  Rltb ((- a) / b + EPS) (x / xmax).

Definition logsinh_fwd (loga logb xmax x : R) : option R :=
  let a := exp loga in let b := exp logb in
  let xn := x / xmax in
  let w := a + b * xn in
  if Rltb ((- a) / b + EPS) xn
  then Some ((w + ln ((1 - exp (-2 * w)) / 2)) / b) else None.

Definition logsinh_bwd (loga logb xmax y : R) : R :=
  let a := exp loga in let b := exp logb in
  let w := b * y in
  xmax * (y + (ln (1 + sqrt (1 + exp (-2 * w))) - a) / b).

Definition logsinh_jac (loga logb xmax x : R) : option R :=
  let a := exp loga in let b := exp logb in
  let xn := x / xmax in
  let w := a + b * xn in
  if Rltb ((- a) / b + EPS) xn then Some (1 / xmax * (1 / tanh w)) else None.

Definition logsinh_params_ok (loga logb xmax : R) : Prop :=
  in_bounds TR_LogSinh_loga_min TR_LogSinh_loga_max loga /\
  in_bounds TR_LogSinh_logb_min TR_LogSinh_logb_max logb /\
  in_bounds TR_LogSinh_xmax_min TR_LogSinh_xmax_max xmax.

(* ------------------------------------------------------------------ *)
(* Reciprocal : constructor option mininu ; param nu                    *)
Definition recip_fwd (nu x : R) : option R :=
  if Rltb (- nu) x then Some (- 1 / (nu + x)) else None.

(* pinned code: guard `y < -mininu` *)
Definition recip_bwd_pinned (mininu nu y : R) : option R :=
  if Rltb y (- mininu) then Some (- 1 / y - nu) else None.
(* repaired code: guard `y < 0` (the whole image of forward) *)
Definition recip_bwd (nu y : R) : option R :=
  if Rltb y 0 then Some (- 1 / y - nu) else None.

Definition recip_jac (nu x : R) : option R :=
  if Rltb (- nu) x then Some (1 / (nu + x) ^ 2) else None.

Definition recip_params_ok (mininu nu : R) : Prop :=
  in_bounds (TR_Reciprocal_nu_min mininu) (TR_Reciprocal_nu_max mininu) nu.

(* ------------------------------------------------------------------ *)
(* Softmax : rows of a 2-D array                                        *)
Definition rsum (l : list R) : R := fold_right Rplus 0 l.
Definition rprod (l : list R) : R := fold_right Rmult 1 l.

(* neither `np.any(x < 0)` nor `np.any(sx > 1-EPS)` fires on this row *)
Definition softmax_row_ok (x : list R) : bool :=
  forallb (fun v => negb (Rltb v 0)) x && negb (Rltb (1 - EPS) (rsum x)).

Definition softmax_fwd_row (x : list R) : list R :=
  let sx := rsum x in map (fun v => ln (v / (1 - sx))) x.
Definition softmax_fwd (xs : list (list R)) : option (list (list R)) :=
  if forallb softmax_row_ok xs then Some (map softmax_fwd_row xs) else None.

Definition softmax_bwd_row (y : list R) : list R :=
  let e := map exp y in map (fun v => v / (1 + rsum e)) e.
Definition softmax_bwd (ys : list (list R)) : list (list R) := map softmax_bwd_row ys.

Definition softmax_jac_row (x : list R) : R :=
  let sx := rsum x in (1 + sx / (1 - sx)) / rprod x.
Definition softmax_jac (xs : list (list R)) : option (list R) :=
  if forallb softmax_row_ok xs then Some (map softmax_jac_row xs) else None.

(* flattened views (the harness compares the raveled arrays) *)
Definition oflat (m : option (list (list R))) : option (list R) :=
  match m with Some l => Some (concat l) | None => None end.

(* ------------------------------------------------------------------ *)
(* Sinh : params nu, scale                                              *)
Definition sinh_fwd (nu scale x : R) : R := arcsinh ((x - nu) * scale).
Definition sinh_bwd (nu scale y : R) : R := sinh y / scale + nu.
Definition sinh_jac (nu scale x : R) : R :=
  let u := (x - nu) * scale in scale / sqrt (1 + u * u).

Definition sinh_params_ok (nu scale : R) : Prop :=
  in_bounds TR_Sinh_nu_min TR_Sinh_nu_max nu /\
  in_bounds TR_Sinh_scale_min TR_Sinh_scale_max scale.

(* ------------------------------------------------------------------ *)
(* Manly : param lam ; constant xmax                                    *)

(* repaired code: `u = x / xmax` first, branch test `abs(lam) > EPS` *)
Definition manly_fwd (lam xmax x : R) : R :=
  let u := x / xmax in
  if Rltb EPS (Rabs lam) then (exp (lam * u) - 1) / lam else u.
Definition manly_bwd (lam xmax y : R) : R :=
  if Rltb EPS (Rabs lam) then xmax * ln (1 + lam * y) / lam else xmax * y.
Definition manly_jac (lam xmax x : R) : R :=
  let u := x / xmax in
  if Rltb EPS (Rabs lam) then exp (lam * u) / xmax else 1 / xmax.

(* pinned code: branch test `abs(lam - EPS) > 0.`; the else branch of _forward
   reads `u` before it is assigned (UnboundLocalError), the else branch of
   _jacobian calls the non-existent np.one_likes (AttributeError): None.
   With lam = 0 the taken branch divides 0 by 0: NaN, None as well. *)
Definition manly_fwd_pinned (lam xmax x : R) : option R :=
  if Rltb 0 (Rabs (lam - EPS)) then
    (if Reqb lam 0 then None else Some ((exp (lam * (x / xmax)) - 1) / lam))
  else None.
Definition manly_bwd_pinned (lam xmax y : R) : option R :=
  if Rltb 0 (Rabs (lam - EPS)) then
    (if Reqb lam 0 then None else Some (xmax * ln (1 + lam * y) / lam))
  else Some (xmax * y).
Definition manly_jac_pinned (lam xmax x : R) : option R :=
  if Rltb 0 (Rabs (lam - EPS)) then Some (exp (lam * (x / xmax)) / xmax) else None.

Definition manly_params_ok (lam xmax : R) : Prop :=
  in_bounds TR_Manly_lam_min TR_Manly_lam_max lam /\
  in_bounds TR_Manly_xmax_min TR_Manly_xmax_max xmax.

(* ------------------------------------------------------------------ *)
(* Transform.backward_censored (base class), generic in the transform:
   None = NaN; np.maximum propagates NaN *)
Definition omax (a : option R) (c : R) : option R :=
  match a with Some v => Some (Rmax v c) | None => None end.

Definition backward_censored (fwd bwd : R -> option R) (censor y : R) : option R :=
  let yc := match fwd censor with None => y | Some tc => Rmax y tc end in
  omax (bwd yc) censor.

Definition tot (f : R -> R) : R -> option R := fun x => Some (f x).

(* ------------------------------------------------------------------ *)
(* correspondence glue (engine E3): the value the implementation returned is
   within tol of the model's value; NaN / ValueError <-> None *)
Definition close_R (m y tol : R) : Prop := Rabs (m - y) <= tol.
Definition close_opt (m : option R) (y : option R) (tol : R) : Prop :=
  match m, y with
  | Some a, Some b => Rabs (a - b) <= tol
  | None, None => True
  | _, _ => False
  end.
Fixpoint close_list (m y : list R) (tol : list R) : Prop :=
  match m, y, tol with
  | [], [], [] => True
  | a :: m', b :: y', t :: tol' => Rabs (a - b) <= t /\ close_list m' y' tol'
  | _, _, _ => False
  end.
Definition close_optlist (m : option (list R)) (y : option (list R)) (tol : list R) : Prop :=
  match m, y with
  | Some a, Some b => close_list a b tol
  | None, None => True
  | _, _ => False
  end.
